#!/usr/bin/env python3
"""Applies validation mutants to /repo *in place* (one at a time, always restored with
`git -C /repo checkout -- .`), runs the named checks' quick tier and records which fired.

    run_mutants.py M01:C11,C10 M06:C02 ...        # explicit
    run_mutants.py --table                         # the table of DESIGN.md Appendix E

Must not run while a background `vp run` is using /repo.
"""
import json, os, re, subprocess, sys, time
HERE = os.path.dirname(os.path.abspath(__file__))
sys.argv_backup = sys.argv
TABLE = {
 'M01': ['C11', 'C10'], 'M03': ['C03'], 'M06': ['C02'], 'M07': ['C02'], 'M10m': ['C03'], 'M13': ['C05'], 'M14': ['C06'], 'M15': ['C06'], 'M15b': ['C06'],
 'M21': ['C09'], 'M26': ['C12'], 'M26b': ['C12'], 'M31': ['C15'], 'M32': ['C16'], 'M33': ['C17'], 'M34': ['C07'], 'M36': ['C18'], 'M38': ['C19'],
 'S01': ['C10'], 'S02': ['C01'], 'S03': ['C10'], 'S04': ['C05'], 'S05': ['C10'], 'S08': ['C19'], 'S11': ['C02'], 'S12': ['C06'],
 'T03': ['C08'], 'T04': ['C13'], 'T06': ['C14'], 'T07': ['C07'], 'T09': ['C10'],
 'U03': ['C06', 'C08'], 'U04': ['C08'], 'U05': ['C16'], 'U06': ['C09'], 'U07': ['C17'], 'U08': ['C07'], 'U10': ['C09'], 'U12': ['C06'], 'U13': ['C06'],
 # behaviour-preserving variants: every check must stay silent
 'T08': ['C13', 'C01'], 'T10': ['C03'],
}
BENIGN = {'T08', 'T10'}

def load_mutants():
    os.environ['MUT_ROOT'] = '/repo'
    src = open(os.path.join(HERE, 'mutants.py')).read()
    g = {'__name__': 'mutants'}
    exec(compile(src, 'mutants.py', 'exec'), g)
    assert g['root'] == '/repo'
    return g

def main():
    args = sys.argv[1:]
    jobs = []
    if args and args[0] == '--table':
        sel = args[1:] or list(TABLE)
        jobs = [(m, TABLE[m]) for m in sel]
    else:
        for a in args:
            m, cs = a.split(':')
            jobs.append((m, cs.split(',')))
    g = load_mutants()
    out = {}
    for m, checks in jobs:
        subprocess.run(['git', '-C', '/repo', 'checkout', '--', '.'], check=True)
        g['name'] = m
        try:
            g['M'][m]()
        except AssertionError as e:
            print(f"{m}: patch does not apply any more: {e}")
            out[m] = {'applies': False}
            continue
        res = {}
        for c in checks:
            t0 = time.time()
            p = subprocess.run(['python3', '/verif/check.py', c, '--tier', 'quick'], stdout=subprocess.PIPE, stderr=subprocess.STDOUT, text=True,
                               env=dict(os.environ, VERIF_VARIANTS=os.environ.get('MUT_VARIANTS', 'dbg,rel')))
            v = re.findall(r'^VIOLATION property=(\S+) replay=\S+\n  (.*)$', p.stdout, re.M)
            res[c] = dict(rc=p.returncode, fired=bool(v), first=(v[0][1][:200] if v else ''), wall=round(time.time() - t0))
            print(f"{m} -> {c}: rc={p.returncode} {'FIRED ' + v[0][1][:150] if v else 'silent'} ({res[c]['wall']}s)", flush=True)
        out[m] = res
    subprocess.run(['git', '-C', '/repo', 'checkout', '--', '.'], check=True)
    json.dump(out, open(os.path.join(HERE, 'last_run.json'), 'w'), indent=1)

if __name__ == '__main__':
    main()
