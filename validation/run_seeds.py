#!/usr/bin/env python3
"""Applies each seeded change (/verif/seeded/<id>/patch.diff) to /repo, runs the quick tier of the
check of the property it breaks (plus any extra checks given as <id>:C01,C02), restores /repo.

    run_seeds.py [seed-id[:Cxx,Cyy] ...]      (default: all seeds, own property only)
"""
import json, os, re, subprocess, sys, time
ROOT = '/verif/seeded'
def main():
    sel = sys.argv[1:] or sorted(os.listdir(ROOT))
    out = {}
    for item in sel:
        sid, _, extra = item.partition(':')
        meta = json.load(open(f'{ROOT}/{sid}/meta.json'))
        checks = extra.split(',') if extra else [meta['property']]
        subprocess.run(['git', '-C', '/repo', 'checkout', '--', '.'], check=True)
        r = subprocess.run(['git', '-C', '/repo', 'apply', f'{ROOT}/{sid}/patch.diff'])
        if r.returncode != 0:
            print(f'{sid}: patch does not apply'); continue
        res = {}
        for c in checks:
            t0 = time.time()
            p = subprocess.run(['python3', '/verif/check.py', c, '--tier', 'quick'], stdout=subprocess.PIPE, stderr=subprocess.STDOUT, text=True,
                               env=dict(os.environ, VERIF_VARIANTS=os.environ.get('MUT_VARIANTS', 'dbg,rel')))
            v = re.findall(r'^VIOLATION property=(\S+) replay=\S+\n  (.*)$', p.stdout, re.M)
            res[c] = dict(rc=p.returncode, fired=bool(v), first=(v[0][1][:220] if v else ''), wall=round(time.time() - t0))
            print(f"{sid} -> {c}: rc={p.returncode} {'FIRED ' + v[0][1][:170] if v else 'silent'} ({res[c]['wall']}s)", flush=True)
        out[sid] = res
        subprocess.run(['git', '-C', '/repo', 'apply', '-R', f'{ROOT}/{sid}/patch.diff'])
    subprocess.run(['git', '-C', '/repo', 'checkout', '--', '.'], check=True)
    json.dump(out, open('/verif/validation/last_seed_run.json', 'w'), indent=1)
main()
