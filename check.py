#!/usr/bin/env python3
"""Driver of the runtime-monitoring checks for bump-scope.

    check.py <PROPERTY> [--tier quick|thorough] [--seed N] [--replay FILE]
    check.py --build-all

Builds the harness variants it needs from /repo's *current working tree* (the harness crate has a
path dependency on /repo, so cargo's fingerprinting rebuilds exactly when the sources changed), fans
shards over the cores, gathers the JSON lines the monitors print, applies the known-findings file,
writes /verif/evidence/<id>.json and prints `VIOLATION property=<id> replay=<path>` + exit 1 when a
monitor observed a violation that is not a listed known finding.

Verdicts are three-valued: 0 = held on everything observed, 1 = violated, 2 = inconclusive (build
failure, harness error, watchdog, or the monitors did not observe the event classes the property
needs).  A shard that *dies* inside an operation (debug ub-check abort, sanitizer abort, SIGSEGV) is
re-run with a write-ahead log to pin the operation down and is reported as a violation.
"""
import json, os, subprocess, sys, time, hashlib, shutil, re, signal
from concurrent.futures import ThreadPoolExecutor

ROOT = os.path.dirname(os.path.abspath(__file__))
HARNESS = os.path.join(ROOT, "harness")
TARGET = os.path.join(ROOT, "target")
EVID = os.path.join(ROOT, "evidence")
REPLAYS = os.path.join(ROOT, "replays")
LOGS = os.path.join(ROOT, "logs")
KNOWN = os.path.join(ROOT, "known_findings.json")
NCPU = os.cpu_count() or 8
ENV = dict(os.environ, CARGO_NET_OFFLINE="true", RUST_BACKTRACE="0")
MIRIFLAGS = "-Zmiri-strict-provenance -Zmiri-symbolic-alignment-check"

# ---------------------------------------------------------------------------------------------
# what each property's check consists of
#   runs: list of (variant, binary, extra args, shards, per-shard budget args) for quick / thorough
#   need: event classes that must have been observed (sum over all shards) for a "held" verdict

def arena(prop, hq, ht, extra=(), miri=(8, 2, 60), need=(), level="exploration", opsq=150):
    return dict(
        level=level, need=list(need),
        quick=[("dbg", "arena", ["--prop", prop, "--ops", str(opsq), *extra], 12, ["--histories", str(hq)]),
               ("rel", "arena", ["--prop", prop, "--ops", str(opsq), *extra], 12, ["--histories", str(hq * 2)]),
               ("miri", "arena", ["--prop", prop, "--ops", str(miri[2]), "--small", *extra], miri[0], ["--histories", str(miri[1])])],
        thorough=[("dbg", "arena", ["--prop", prop, *extra], 16, ["--histories", str(ht)]),
                  ("rel", "arena", ["--prop", prop, *extra], 16, ["--histories", str(ht * 3)]),
                  ("rel", "arena", ["--prop", prop, "--ops", "400", *extra], 16, ["--histories", str(ht // 2)]),
                  ("asan", "arena", ["--prop", prop, "--thin", *extra], 16, ["--histories", str(ht // 2)]),
                  ("asan", "arena", ["--prop", prop, *extra], 8, ["--histories", str(ht // 2)]),
                  ("vg", "arena", ["--prop", prop, "--thin", *extra], 16, ["--histories", str(max(4, ht // 40))]),
                  ("miri", "arena", ["--prop", prop, "--ops", "80", "--small", *extra], 16, ["--histories", "6"]),
                  ("miri", "arena", ["--prop", prop, "--ops", "80", "--small", "--thin", *extra], 16, ["--histories", "6"])],
    )

PLANS = {
    "C01": arena("C01", 100, 2500, need=["fast", "slow_new", "slow_reuse", "grow_moved_other_chunk", "prepared_commit", "scope_exit_across_chunks", "session", "first_chunk_from_unallocated"]),
    "C02": arena("C02", 100, 2500, need=["grow_inplace", "grow_moved_same_chunk", "grow_moved_other_chunk", "shrink_inplace", "shrink_moved", "shrink_noop", "zeroed_on_dirty"]),
    "C03": arena("C03", 100, 2500, need=["scope_exit_same_chunk", "scope_exit_across_chunks", "scope_exit_unwind", "reset_to", "try_with_err_rewind", "replay_scope", "reset_loop", "reset_to_unallocated_checkpoint"]),
    "C05": arena("C05", 60, 1500, level="fault_enumeration", need=["reset", "reset_to_start", "drop_multi_chunk", "raw_roundtrip", "base_refused", "overgrant_used"]),
    "C10": arena("C10", 100, 2500, need=["fast", "slow_new", "slow_reuse", "scope_exit_across_chunks", "align_lower", "align_raise", "prepared_commit", "claim_enter"]),
    "C13": arena("C13", 100, 2500, need=["dealloc_reclaim", "dealloc_noop", "reclaim_probe_same_address", "grow_inplace_probe", "shrink_noop", "shrink_inplace"]),
    "C14": arena("C14", 100, 2500, need=["claim_enter", "claim_op_rejected", "claim_exit_unwind"]),
    "C18": arena("C18", 100, 2500, need=["align_raise", "align_lower", "conversion_probe", "scope_exit_unwind"]),
}

def pure_plan(what, nq, nt, need, extra_quick=(), extra_thorough=()):
    return dict(
        level="exploration", need=list(need),
        rule="evaluations = inputs (free range, layout, minimum alignment / header layout, size hint) evaluated by the real pure functions compiled from /repo "
             "next to a wide-integer reference specification, each under every truthful hint combination; non-trivial = regular (non-dummy) range and non-zero size, distinct by the input tuple",
        quick=[("dbg", "pure", ["--what", what], 16, ["--n", str(nq)]),
               ("rel", "pure", ["--what", what], 16, ["--n", str(nq * 2)]),
               ("miri", "pure", ["--what", what], 4, ["--n", "250"]), *extra_quick],
        thorough=[("dbg", "pure", ["--what", what], 16, ["--n", str(nt)]),
                  ("rel", "pure", ["--what", what], 16, ["--n", str(nt * 4)]),
                  ("miri", "pure", ["--what", what], 16, ["--n", "1500"]), *extra_thorough],
    )

PLANS["C11"] = pure_plan("bumping", 150000, 12000000,
                         ["up:mid:align<=min:fits", "up:mid:align>16:does_not_fit", "down:mid:align<=16:fits", "down:near_top:align>16:does_not_fit",
                          "up:near_top:align>16:fits", "up:dummy:align<=min:does_not_fit", "down:dummy:align>16:does_not_fit", "up:near_zero:align<=16:fits"])
_c12a = arena("C12", 60, 1500)
PLANS["C12"] = pure_plan("chunksize", 150000, 8000000,
                         ["fit_checked", "growth_checked", "hint_overflow_reported", "up_sized", "down_sized", "slow_new", "with_capacity_fit", "reserve_new_chunk", "first_chunk_from_unallocated", "chunk_growth_walked"],
                         extra_quick=_c12a["quick"], extra_thorough=_c12a["thorough"][:4])

def coll(prop, hq, ht, need, level="exploration", extra=(), extra_quick=(), extra_thorough=(), miri_h=3, miri_extra=()):
    return dict(
        level=level, need=list(need),
        rule="evaluations = generated operation histories on a real collection next to its reference model (std Vec/String, drop ledger, position vector); for fault_enumeration "
             "each history is additionally re-run once per injection point (callback index for panics, base-allocator call index for refusals); "
             "non-trivial = the history hit a monitored event class (growth, reallocation, matched panic, injected panic, partial drain, split, ...), distinct by (configuration, operation list)",
        quick=[("dbg", "coll", ["--prop", prop, *extra], 16, ["--histories", str(hq)]),
               ("rel", "coll", ["--prop", prop, *extra], 16, ["--histories", str(hq * 2)]),
               ("miri", "coll", ["--prop", prop, "--ops", "25", *extra, *miri_extra], 8, ["--histories", str(miri_h)]), *extra_quick],
        thorough=[("dbg", "coll", ["--prop", prop, *extra], 16, ["--histories", str(ht)]),
                  ("rel", "coll", ["--prop", prop, *extra], 16, ["--histories", str(ht * 3)]),
                  ("asan", "coll", ["--prop", prop, "--thin", *extra], 16, ["--histories", str(ht)]),
                  ("vg", "coll", ["--prop", prop, "--thin", *extra], 16, ["--histories", str(max(4, ht // 30))]),
                  ("miri", "coll", ["--prop", prop, "--ops", "30", *extra, *miri_extra], 16, ["--histories", str(miri_h * 5)]), *extra_thorough],
    )

PLANS["C06"] = coll("C06", 12, 300, ["panic_injected", "panic_injected_in_drop", "drain_partial", "drain_forgotten", "drain_keep_rest", "retain", "dedup", "extract_if_partial", "finalised"],
                    level="fault_enumeration", extra=["--max-enum", "60"], miri_h=1, miri_extra=["--max-enum", "8"])
_c07a = arena("C07", 25, 600, level="fault_enumeration")
# every entry point (inherent forwarders, trait impls, wrappers, trait objects) against a base allocator that starts refusing mid-history
_c07l_quick = [("dbg", "lockstep", ["--refuse"], 8, ["--histories", "200"]), ("rel", "lockstep", ["--refuse"], 8, ["--histories", "600"]), ("miri", "lockstep", ["--refuse", "--ops", "40"], 4, ["--histories", "2"])]
_c07l_thorough = [("dbg", "lockstep", ["--refuse"], 16, ["--histories", "4000"]), ("rel", "lockstep", ["--refuse", "--ops", "300"], 16, ["--histories", "8000"]), ("asan", "lockstep", ["--refuse"], 16, ["--histories", "2000"])]
PLANS["C07"] = coll("C07", 150, 4000, ["alloc_refused", "fixed_full_rejected", "base_refused", "mut_grew_other_chunk", "commit_mut", "panicking_method_panicked_on_refusal", "typed_err_refused",
                                       "refusal_reported_as_error", "refusal_reported_by_unwinding", "state:base_refuses_everything"],
                    level="fault_enumeration", miri_h=1, extra_quick=[*_c07a["quick"], *_c07l_quick], extra_thorough=[*_c07a["thorough"][:5], *_c07l_thorough])
PLANS["C08"] = coll("C08", 400, 40000, ["grew", "grew_realloc", "panic_matched_model", "zst_capacity", "fixed_full_rejected", "conversion", "drain_partial", "retain", "dedup",
                                         "append_src:owned_slice::IntoIter", "append_src:owned_slice::Drain", "append_src:MutBumpVecRev", "append_src:&mut BumpVec", "ctor:3", "ctor:4", "ctor:5", "ctor:6", "dedup_by_non_equivalence"])
PLANS["C09"] = coll("C09", 400, 40000, ["nonboundary_index", "invalid_utf8_input", "lossy_replaced", "str_panic_matched", "cstr", "split", "panic_injected", "string_split_parts_filled"])
_c15a = arena("C15", 40, 1000)
PLANS["C15"] = coll("C15", 300, 20000, ["commit_mut", "commit_mut_rev", "mut_dropped_unfinalised", "mut_grew_other_chunk", "prepared_commit", "mut_helper", "prepared_commit_after_chunk_switch", "mut_collection_via_dyn", "collection_on_unallocated_arena", "finalised_exactly_full"],
                    extra_quick=_c15a["quick"], extra_thorough=_c15a["thorough"][:4])
PLANS["C16"] = coll("C16", 400, 50000, ["split", "merge_ok", "merge_rejected", "split_interior", "split_prefix", "split_suffix", "split_empty", "split_full", "into_flattened", "split_at_spare", "into_flattened_mut"])

PLANS["C17"] = dict(
    level="exploration",
    need=["pair:dyn", "pair:try_vs_panicking", "pair:inherent_vs_trait", "req:IterMutRev", "req:Reserve", "req:Raw", "req:TypedLayout", "req:CStrFmtMut", "req:SliceFillWith",
          "req:VecSession", "req:MutVecSession", "req:CheckpointReset", "req:TryWith", "req:RawSession", "req:PrepareCommit", "state:scope_left_later_chunks"],
    rule="evaluations = lock-step histories: two arenas in identical states (congruent chunk addresses through MonAlloc) execute each generated request through two different, randomly paired entry points "
         "(inherent Bump / BumpScope forwarders, trait impls on BumpScope, &Bump, &BumpScope, WithoutDealloc, WithoutShrink, dyn, each panicking and try_); non-trivial = at least one request returned a block; distinct by (configuration, request list)",
    quick=[("dbg", "lockstep", [], 16, ["--histories", "300"]), ("rel", "lockstep", [], 16, ["--histories", "900"]), ("miri", "lockstep", ["--ops", "40"], 8, ["--histories", "2"])],
    thorough=[("dbg", "lockstep", [], 16, ["--histories", "8000"]), ("rel", "lockstep", ["--ops", "300"], 16, ["--histories", "20000"]),
              ("asan", "lockstep", [], 16, ["--histories", "4000"]), ("miri", "lockstep", ["--ops", "60"], 16, ["--histories", "6"])],
)

PLANS["C19"] = dict(
    level="exploration",
    need=["get_reused", "arenas_seen_by_several_threads", "pool_reset", "pool_reset_to_start", "pool_drop_only", "blocks_verified"],
    rule="evaluations = pool runs: 2-16 threads x 50-500 get/allocate/drop cycles through all six acquisition methods with injected yields/sleeps, followed by pool reset, reset_to_start or drop; "
         "distinct_nontrivial = number of distinct get/drop interleavings observed (hash of the (thread, event) sequence of the run's event log)",
    quick=[("dbg", "pool", [], 8, ["--histories", "3"]), ("rel", "pool", [], 8, ["--histories", "6"]), ("miri", "pool", [], 16, ["--histories", "2"])],
    thorough=[("dbg", "pool", [], 16, ["--histories", "40"]), ("rel", "pool", [], 16, ["--histories", "150"]), ("tsan", "pool", [], 16, ["--histories", "20"]),
              ("asan", "pool", [], 16, ["--histories", "20"]), ("miri", "pool", [], 16, ["--histories", "8"])],
)

# ---------------------------------------------------------------------------------------------
# building

def target_dir(variant):
    return os.path.join(TARGET, variant)

def build_cmd(variant, binary):
    td = target_dir(variant)
    if variant == "dbg":
        return ["cargo", "+nightly", "build", "--bin", binary, "--target-dir", td], {}, os.path.join(td, "debug", binary)
    if variant in ("rel", "vg"):
        td = target_dir("rel")
        return ["cargo", "+nightly", "build", "--release", "--bin", binary, "--target-dir", td], {}, os.path.join(td, "release", binary)
    if variant == "asan":
        env = {"RUSTFLAGS": "-Zsanitizer=address -Cforce-frame-pointers=yes --cfg vh_sanitizer", "CARGO_PROFILE_RELEASE_DEBUG": "1"}
        return (["cargo", "+nightly", "build", "--release", "--bin", binary, "--target-dir", td, "--target", "x86_64-unknown-linux-gnu"], env,
                os.path.join(td, "x86_64-unknown-linux-gnu", "release", binary))
    if variant == "tsan":
        env = {"RUSTFLAGS": "-Zsanitizer=thread --cfg vh_sanitizer"}
        return (["cargo", "+nightly", "build", "--release", "-Zbuild-std", "--bin", binary, "--target-dir", td, "--target", "x86_64-unknown-linux-gnu"], env,
                os.path.join(td, "x86_64-unknown-linux-gnu", "release", binary))
    if variant == "miri":
        # `cargo miri run` builds and runs in one go; build once with a no-op invocation
        return ["cargo", "+nightly", "miri", "run", "--bin", binary, "--target-dir", td, "--", "--noop"], {"MIRIFLAGS": MIRIFLAGS}, None
    raise ValueError(variant)

_built = {}

def build(variant, binary, log):
    key = (variant if variant != "vg" else "rel", binary)
    if key in _built:
        return _built[key]
    cmd, env, path = build_cmd(variant, binary)
    t0 = time.time()
    p = subprocess.run(cmd, cwd=HARNESS, env=dict(ENV, **env), stdout=subprocess.PIPE, stderr=subprocess.STDOUT, text=True)
    ok = p.returncode == 0
    log.write(f"== build {variant}/{binary}: rc={p.returncode} {time.time()-t0:.1f}s\n")
    if not ok:
        log.write(p.stdout[-6000:] + "\n")
    _built[key] = (ok, path, p.stdout[-3000:] if not ok else "")
    return _built[key]

# ---------------------------------------------------------------------------------------------
# running shards

def shard_cmd(variant, binary, path, args):
    if variant == "miri":
        # the collection drivers leak on purpose (forgotten drains, values lost by panicking drops): the drop ledger judges those
        flags = MIRIFLAGS + (" -Zmiri-ignore-leaks" if binary in ("coll", "pool") else "")
        if binary == "pool" and "--shard" in args:
            # a different scheduler seed per shard: more distinct interleavings, data-race detection on each
            flags += f" -Zmiri-seed={args[args.index('--shard') + 1]} -Zmiri-preemption-rate=0.05"
        return ["cargo", "+nightly", "miri", "run", "--bin", binary, "--target-dir", target_dir("miri"), "--", *args], {"MIRIFLAGS": flags}
    if variant == "vg":
        return ["valgrind", "--error-exitcode=97", "--leak-check=no", "--undef-value-errors=yes", "-q", path, *args], {}
    if variant == "asan":
        return [path, *args], {"ASAN_OPTIONS": "halt_on_error=1:abort_on_error=0:detect_leaks=0:exitcode=98"}
    if variant == "tsan":
        return [path, *args], {"TSAN_OPTIONS": "halt_on_error=1:exitcode=66"}
    return [path, *args], {}

def run_shard(variant, binary, path, args, timeout):
    cmd, env = shard_cmd(variant, binary, path, args)
    t0 = time.time()
    try:
        p = subprocess.run(cmd, cwd=HARNESS, env=dict(ENV, **env), stdout=subprocess.PIPE, stderr=subprocess.PIPE, text=True, timeout=timeout, errors="replace")
        return dict(rc=p.returncode, out=p.stdout, err=p.stderr[-20000:], wall=time.time() - t0, timeout=False, cmd=cmd, env=env)
    except subprocess.TimeoutExpired as e:
        out = e.stdout.decode(errors="replace") if isinstance(e.stdout, bytes) else (e.stdout or "")
        err = e.stderr.decode(errors="replace") if isinstance(e.stderr, bytes) else (e.stderr or "")
        return dict(rc=None, out=out, err=err[-20000:], wall=time.time() - t0, timeout=True, cmd=cmd, env=env)

def parse(out):
    viols, samples, stat, hashes, done = [], [], None, [], False
    for line in out.splitlines():
        if not line.startswith("{"):
            continue
        try:
            j = json.loads(line)
        except Exception:
            continue
        t = j.get("t")
        if t == "viol":
            viols.append(j)
        elif t == "sample":
            samples.append(j["text"])
        elif t == "stat":
            stat = j
        elif t == "hashes":
            hashes = j["nontrivial"]
        elif t == "done":
            done = True
    return viols, samples, stat, hashes, done

def build_failure(err):
    """cargo / rustc could not build or link the harness (as opposed to the harness running and dying)"""
    return any(s in err for s in ("error: could not compile", "error: extern location for", "error[E", "error: failed to run custom build command",
                                  "error: linking with"))

def sanitizer_report(variant, err):
    """First in-repo frame / headline of a sanitizer or Miri report, as a stable signature."""
    if variant == "miri":
        m = re.search(r"error: (Undefined Behavior|unsupported operation|memory leaked|abnormal termination)[^\n]*", err)
        if m:
            head = m.group(0)
            loc = re.search(r"--> (/repo/[^\n:]+):(\d+)", err) or re.search(r"at (/repo/src/[^\n:]+):(\d+)", err)
            where = loc.group(1).replace("/repo/", "") if loc else "harness-or-std"
            head = re.sub(r"alloc\d+|0x[0-9a-f]+|<\d+>|\[[0-9a-fx.]+\]", "#", head)
            return f"miri:{where}:{head[:140]}"
    if variant == "asan":
        m = re.search(r"ERROR: AddressSanitizer: ([a-zA-Z-]+)", err)
        if m:
            loc = re.search(r"(/repo/src/[^\s:]+):\d+", err)
            return f"asan:{m.group(1)}:{loc.group(1).replace('/repo/', '') if loc else '?'}"
    if variant == "tsan":
        m = re.search(r"WARNING: ThreadSanitizer: ([a-zA-Z -]+)", err)
        if m:
            loc = re.search(r"(/repo/src/[^\s:]+):\d+", err)
            return f"tsan:{m.group(1).strip()}:{loc.group(1).replace('/repo/', '') if loc else '?'}"
    if variant == "vg":
        m = re.search(r"==\d+== (Invalid (read|write) of size \d+|Conditional jump or move depends on uninitialised value|Use of uninitialised value of size \d+|Invalid free|Mismatched free)", err)
        if m:
            loc = re.search(r"\((/repo/)?(src/[a-z_/]+\.rs):\d+\)", err)
            return f"valgrind:{m.group(1)}:{loc.group(2) if loc else '?'}"
    return None

# ---------------------------------------------------------------------------------------------

def load_known():
    try:
        return json.load(open(KNOWN)).get("findings", [])
    except FileNotFoundError:
        return []

def known_open(prop, sig, known):
    for k in known:
        if k.get("status") == "open" and k.get("property") == prop and k.get("signature") == sig:
            return k
    return None

def main():
    argv = sys.argv[1:]
    if argv and argv[0] == "--build-all":
        return build_all()
    if not argv:
        print(__doc__)
        return 2
    prop = argv[0]
    tier = os.environ.get("VERIF_TIER", "quick")
    seed = int(os.environ.get("VERIF_SEED", "20260923"))
    replay = None
    i = 1
    while i < len(argv):
        if argv[i] == "--tier":
            tier = argv[i + 1]; i += 2
        elif argv[i] == "--seed":
            seed = int(argv[i + 1]); i += 2
        elif argv[i] == "--replay":
            replay = argv[i + 1]; i += 2
        else:
            i += 1
    if replay:
        return do_replay(replay)
    if prop not in PLANS:
        print(f"unknown property {prop}")
        return 2
    return run_check(prop, tier, seed)

def build_all():
    os.makedirs(LOGS, exist_ok=True)
    log = open(os.path.join(LOGS, "build-all.log"), "w")
    bins = sorted({(v, b) for plan in PLANS.values() for (v, b, *_r) in plan["quick"]})
    ok = True
    # native builds in parallel (cargo serialises per target dir), miri afterwards
    with ThreadPoolExecutor(4) as ex:
        res = list(ex.map(lambda vb: (vb, build(vb[0], vb[1], log)), bins))
    for vb, (o, _p, msg) in res:
        print(f"build {vb[0]}/{vb[1]}: {'ok' if o else 'FAILED'}")
        if not o:
            print(msg)
            ok = False
    return 0 if ok else 2

def do_replay(path):
    r = json.load(open(path))
    cmd, env = r["cmd"], r.get("env", {})
    print("replaying:", " ".join(cmd))
    p = subprocess.run(cmd, cwd=HARNESS, env=dict(ENV, **env))
    return p.returncode

def run_check(prop, tier, seed):
    t0 = time.time()
    os.makedirs(EVID, exist_ok=True)
    os.makedirs(LOGS, exist_ok=True)
    os.makedirs(os.path.join(REPLAYS, prop), exist_ok=True)
    log = open(os.path.join(LOGS, f"{prop}-{tier}.log"), "w")
    plan = PLANS[prop]
    runs = plan[tier if tier in plan else "quick"]
    only = os.environ.get("VERIF_VARIANTS")
    if only:
        # validation runs may restrict the variants (never used by the registered commands)
        runs = [r for r in runs if r[0] in only.split(",")]
    known = load_known()
    inconclusive = []
    # builds: distinct (variant, binary) — native ones concurrently
    need_build = sorted({(v, b) for (v, b, *_r) in runs})
    with ThreadPoolExecutor(3) as ex:
        built = dict(zip(need_build, ex.map(lambda vb: build(vb[0], vb[1], log), need_build)))
    for vb, (ok, _p, msg) in built.items():
        if not ok:
            inconclusive.append(f"build of {vb[0]}/{vb[1]} failed: {msg[-400:]}")
    jobs = []
    for ri, (variant, binary, args, shards, budget) in enumerate(runs):
        ok, path, _ = built[(variant, binary)]
        if not ok:
            continue
        for s in range(shards):
            a = [*args, *budget, "--seed", str(seed + 1000 * ri), "--shard", str(s), "--nshards", str(shards)]
            timeout = {"miri": 1500, "vg": 2400, "asan": 1500, "tsan": 1500}.get(variant, 900) * (1 if tier == "quick" else 4)
            jobs.append((variant, binary, path, a, timeout))
    # miri shards are single threaded and slow: start them first
    jobs.sort(key=lambda j: 0 if j[0] == "miri" else 1)
    with ThreadPoolExecutor(NCPU) as ex:
        results = list(ex.map(lambda j: (j, run_shard(*j)), jobs))

    counters, viols, samples, hashes = {}, [], [], set()
    tot_hist = tot_ops = tot_states = 0
    variants_run = {}
    for (variant, binary, path, a, timeout), r in results:
        v, smp, stat, hs, done = parse(r["out"])
        tag = f"{variant}:{binary}:shard{a[a.index('--shard')+1]}"
        variants_run.setdefault(variant, dict(shards=0, histories=0, ops=0, wall_s=0.0))
        variants_run[variant]["shards"] += 1
        variants_run[variant]["wall_s"] = round(variants_run[variant]["wall_s"] + r["wall"], 1)
        if stat:
            tot_hist += stat["histories"]; tot_ops += stat["ops"]; tot_states += stat["states"]
            variants_run[variant]["histories"] += stat["histories"]
            variants_run[variant]["ops"] += stat["ops"]
            for k, n in stat["counters"].items():
                counters[k] = counters.get(k, 0) + n
        for h in hs:
            hashes.add(h)
        samples.extend(smp[:1])
        for x in v:
            x["variant"] = variant
            x["replay_cmd"] = shard_cmd(variant, binary, path, [*a, "--only-hist", str(x["hist"]), "--wal", "--loud"])
            viols.append(x)
        if r["timeout"]:
            inconclusive.append(f"{tag}: watchdog fired after {timeout}s")
            log.write(f"-- {tag} TIMEOUT\n{r['err'][-2000:]}\n")
        elif not done:
            # the process died: sanitizer report, ub-check abort, signal
            sig = sanitizer_report(variant, r["err"])
            if sig is None and build_failure(r["err"]):
                # the harness itself did not build or link (e.g. its sources changed under a running check): no verdict
                inconclusive.append(f"{tag}: harness build failed: {r['err'][-300:]}")
                log.write(f"-- {tag} BUILD FAILURE\n{r['err'][-3000:]}\n")
                continue
            rr = run_shard(variant, binary, path, [*a, "--wal", "--loud"], timeout)
            if sig is None and (build_failure(rr["err"]) or (binary != "pool" and rr["rc"] == 0 and '"t":"done"' in rr["out"])):
                # deterministic single-threaded shard whose death does not reproduce (or whose rerun did not build):
                # killed from outside (memory, build race), not an observation about the code
                inconclusive.append(f"{tag}: process death did not reproduce on rerun (rc={r['rc']}): {r['err'][-300:]}")
                log.write(f"-- {tag} DIED, NOT REPRODUCED rc={r['rc']}\n{r['err'][-3000:]}\n")
                continue
            ops = [l for l in rr["err"].splitlines() if l.startswith("op ")]
            last = ops[-1] if ops else "(outside any operation)"
            msgs = [l for l in rr["err"].splitlines() if not l.startswith("op ") and ("panicked at" in l or "precondition" in l or "ERROR" in l or "error:" in l or "assertion" in l)]
            if sig is None:
                cause = msgs[0][:160] if msgs else f"rc={r['rc']}"
                cause = re.sub(r"\d+", "#", cause)
                opclass = re.sub(r"\[.*?\]", "", last).split()
                opclass = opclass[2] if len(opclass) > 2 else "?"
                sig = f"process_died:{opclass}:{cause}"
            if not ops and sig.startswith("process_died"):
                inconclusive.append(f"{tag}: process died outside any operation (rc={r['rc']}): {r['err'][-300:]}")
                log.write(f"-- {tag} DIED outside op rc={r['rc']}\n{r['err'][-3000:]}\n")
            else:
                m = re.match(r"op (\d+) \[(.*?)#(\d+)\] (.*)", last)
                viols.append(dict(prop=prop, sig=sig, detail=(r["err"][-1500:]), config=m.group(2) if m else "?", hist=int(m.group(3)) if m else -1,
                                  op=int(m.group(1)) if m else -1, opdesc=m.group(4) if m else last, variant=variant,
                                  replay_cmd=shard_cmd(variant, binary, path, [*a, "--wal", "--loud"])))
                log.write(f"-- {tag} DIED in {last}\n{r['err'][-3000:]}\n")
        elif r["rc"] not in (0,):
            inconclusive.append(f"{tag}: exit status {r['rc']}: {r['err'][-300:]}")

    # verdict
    mine = [v for v in viols if v["prop"] == prop]
    others = [v for v in viols if v["prop"] != prop]
    new, known_hits = [], {}
    seen = set()
    for v in mine:
        key = v["sig"]
        k = known_open(prop, key, known)
        if k:
            known_hits[key] = k
            continue
        if key in seen:
            continue
        seen.add(key)
        new.append(v)
    for key, k in known_hits.items():
        print(f"KNOWN-FINDING: property={prop} {k.get('what', key)}")
    rc = 0
    for n, v in enumerate(new[:10]):
        rp = os.path.join(REPLAYS, prop, f"{tier}-{seed}-{n}.json")
        cmd, env = v["replay_cmd"]
        json.dump(dict(property=prop, signature=v["sig"], detail=v["detail"], config=v["config"], history=v["hist"], op=v["op"], operation=v["opdesc"],
                       variant=v["variant"], cmd=cmd, env=env, cwd=HARNESS), open(rp, "w"), indent=1)
        print(f"VIOLATION property={prop} replay={rp}")
        print(f"  {v['sig']} :: {v['opdesc'][:150]} :: {v['detail'][:300]}")
        rc = 1
    missing = [c for c in plan["need"] if counters.get(c, 0) == 0]
    if rc == 0 and (inconclusive or missing):
        rc = 2
        for m in inconclusive[:6]:
            print("INCONCLUSIVE:", m)
        if missing:
            print("INCONCLUSIVE: event classes never observed:", ", ".join(missing))

    ev = dict(
        property_id=prop, tier=tier, seed=seed, level=plan["level"],
        coverage=dict(
            evaluations=tot_hist,
            distinct_nontrivial=len(hashes),
            rule=plan.get("rule", "evaluations = generated operation histories executed against the real arena (each op followed by all oracles); "
                 "a history is non-trivial if it hit at least one monitored event class (slow path, reallocation, scope exit, ...) and distinct by the hash of (configuration, operation descriptions)"),
            samples=samples[:5] or ["(no sample)"],
            operations=tot_ops,
            distinct_abstract_states=tot_states,
            event_classes={k: v for k, v in sorted(counters.items()) if not k.startswith("viol:")},
            required_event_classes=plan["need"],
            variants=variants_run,
            cross_property_observations=sorted({f"{v['prop']}:{v['sig']}" for v in others})[:20],
            known_findings_hit=sorted(known_hits),
            inconclusive=inconclusive[:10],
        ),
        assumptions=[
            "held on the executions observed only: paths no workload reached are not covered",
            "harness built with nightly (alloc_error_hook), default features of bump-scope",
            "x86_64 Linux; pointer-width-dependent arithmetic is only exercised for 64 bit",
        ],
        wall_s=round(time.time() - t0, 1),
        violations=len(new),
    )
    json.dump(ev, open(os.path.join(EVID, f"{prop}.json"), "w"), indent=1)
    print(f"{prop} {tier}: histories={tot_hist} ops={tot_ops} distinct_nontrivial={len(hashes)} violations={len(new)} known={len(known_hits)} rc={rc} wall={time.time()-t0:.0f}s")
    return rc

if __name__ == "__main__":
    sys.exit(main())
