#!/usr/bin/env python3
"""Writes MANIFEST.json from the table below (kept next to check.py's PLANS)."""
import json
CHECKS = {
 "C01": ("exploration", "shadow ledger of live blocks (containment in owned chunks, alignment, length, pairwise disjointness) after every operation of generated histories; Miri/ASan/valgrind on the same histories",
         "Generated, state-dependent operation histories (allocator interface through every wrapper and dyn handle, typed allocs, prepared allocations, collection sessions, scopes/guards/checkpoints/claims/alignment regions, reset, fault-free) over 14 settings x base-allocator configurations x 5 minimum alignments, in debug, release and Miri (thorough: + ASan, valgrind, 20x histories). Right level because the property quantifies over histories x layouts x settings, which cannot be enumerated; the oracle sees every returned block.",
         "DESIGN.md 2/C01"),
 "C02": ("exploration", "pattern integrity of every live block + whole-chunk frame snapshots around grow/shrink + zero checks on dirty memory; Miri for overlapping copies and provenance",
         "Same interpreter with a reallocation-heavy mix: every block carries a unique byte pattern re-read after every operation; before each grow/shrink all chunk contents are copied and every byte outside the new block must be unchanged; zeroed memory is checked on memory that was dirtied before.",
         "DESIGN.md 2/C02"),
 "C03": ("exploration", "entry/exit tuple (allocated, current chunk, position) at every scope end, replayed workloads must not call the base allocator, reset() loop convergence bound",
         "Every way to end a scope (scoped, scoped_aligned, guard drop/reset, reset_to incl. unallocated checkpoints, alloc_try_with(_mut) Err, unwinding) at nesting depth up to 6; exact comparison with the tuple recorded at entry; MonAlloc call counter around replayed fat workloads; logical bound for reset() loops.",
         "DESIGN.md 2/C03"),
 "C05": ("fault_enumeration", "MonAlloc ledger (exactly-once release, release layout within [requested, granted], guard zones, poison of released blocks) + event-log pairing, with base-allocator refusals enumerated per call index",
         "Lifecycle histories ending in drop at arbitrary points, reset/reset_to_start/into_raw round trips, under three fault modes (none, random refusals, each base call index refused individually plus refuse-from-k and pairs); all allocator value layouts and over-granting/minimal-alignment grant policies.",
         "DESIGN.md 2/C05"),
 "C06": ("fault_enumeration", "drop ledger (per-identity drop counters, conservation created = in collections + dropped + explicitly leaked) with a panic injected at every callback index of every history",
         "Every generated history over BumpBox<[T]>, FixedBumpVec, BumpVec, MutBumpVec, MutBumpVecRev (tracked sized and zero-sized elements) is first run dry to count the callbacks the library makes (Clone, PartialEq, Drop, predicates, generators), then re-run with a panic injected at each callback index (strided when there are more than the per-history cap); after every operation - including the one that unwound - no identity may have been dropped twice, none may be owned twice, none may be lost unless the panic came out of a Drop, and at teardown every identity is dropped exactly once (forgotten drains exempt).",
         "DESIGN.md 2/C06"),
 "C07": ("fault_enumeration", "outcome classification (Ok / Err / alloc-error panic / other panic) against the refusals MonAlloc recorded for that operation, then all state oracles; each base-allocator call index refused individually; plus lock-step arenas whose base allocator starts refusing mid-history, every request through every entry point (try_ forms must return Err, plain entry points must agree)",
         "Arena histories and collection histories (vectors, strings) are run unfaulted to count base-allocator calls, then once per call index with exactly that call refused, plus refuse-from-k, pairs and random refusals; overflowing sizes (reserve(usize::MAX), isize::MAX bytes) are part of the argument generators. try_ methods must return Err without panicking, panicking methods must not return, the failed collection must be unchanged, the arena must still pass the statistics walker and serve an allocation afterwards, nothing may leak.",
         "DESIGN.md 2/C07"),
 "C08": ("exploration", "lock-step std::vec::Vec reference model (values, lengths, returned values, panic occurrence), capacity promises and buffer-address stability",
         "All five vector families x element types u8, u32, [u8;3], u64, (), tracked sized and tracked zero-sized x both directions and three minimum alignments; arguments include boundary and out-of-range indices and inverted/overflowing ranges; MutBumpVecRev is compared with the front/back-mirrored model taken from its documentation.",
         "DESIGN.md 2/C08"),
 "C09": ("exploration", "lock-step std String model + core::str::from_utf8 on the raw bytes after every operation (also after injected panics), decoding constructors against std, C-string byte comparison",
         "BumpBox<str>, FixedBumpString, BumpString, MutBumpString with text mixing 1-4 byte characters, combining marks and NUL; every byte index incl. non-boundaries and len+1; invalid/truncated UTF-8 and lone surrogates for the decoding constructors; retain with a panicking predicate; write! with a failing Display.",
         "DESIGN.md 2/C09"),
 "C15": ("exploration", "per-chunk bump-position vector read through allocator_stats() while an exclusive-borrow collection is filled/dropped/finalised, exact commit-advance bound, contents vs model, typed and trait-object allocators, allocated and still unallocated arenas; arena-level prepared-slice and *_mut helper operations",
         "MutBumpVec/MutBumpVecRev/MutBumpString filled over multi-chunk initial states with growth into other chunks, failed reservations, injected panics; positions of all chunks up to the one current at creation must not move until finalisation, which must advance by the content size plus at most alignment padding.",
         "DESIGN.md 2/C15"),
 "C16": ("exploration", "partition model over a population of parts descending from one allocation: contents per part, identity ownership, capacity sums, memory disjointness, sibling integrity after follow-up operations, merge adjacency",
         "split_off (all range shapes), split_at, split_first/last, split_off_first/last, partition, merge (adjacent and non-adjacent) on boxed slices, fixed vectors, vectors and strings; follow-ups (push/grow, shrink_to_fit, pop, dealloc, conversions, drop) on one part while all others are re-read.",
         "DESIGN.md 2/C16"),
 "C10": ("exploration", "statistics walker after every operation: typed and type-erased views field by field, list coherence, size/alignment/containment relations",
         "The walker of DESIGN 1.4 runs after every operation of the C01 histories for all allocator value layouts (header size 32..240, header alignment 16..64).",
         "DESIGN.md 2/C10"),
 "C11": ("exploration", "wide-integer (u128) reference specification evaluated next to the real bump_up/bump_down/bump_prepare_up/bump_prepare_down compiled from /repo, on adversarial inputs under every truthful hint combination",
         "The four pure computations are compiled from /repo/src/bumping.rs (#[path], the real source, rebuilt on every check) and compared with a specification written from the statement in arithmetic that cannot overflow; inputs are biased to the edges (addresses next to 0 and to the top of the address space, the negative-capacity dummy range, sizes around the remaining length +-1 and near isize::MAX, alignments up to 2^28, min alignment 1..16); debug builds additionally run the functions' own post-condition asserts and overflow checks, a Miri shard checks the arithmetic's UB-freedom. The input space (~2^200) cannot be enumerated; millions of edge-biased inputs per run is the right level for a pure function whose branches are few and arithmetic.",
         "DESIGN.md 2/C11"),
 "C12": ("exploration", "wide-integer specification of ChunkSizeConfig (hint/size/align_size, fit of the causing layout for every base address and granted size, growth factor, overflow reporting) + growth invariant over every adjacent chunk pair of the real arena after every operation + MonAlloc event log in the real arena (<=1 base call per allocation, with_capacity/reserve fit)",
         "Pure part: the real size_config.rs compiled from /repo against a u128 model with synthetic header layouts (size 32..512, alignment 16..256), layouts up to alignment 2^28 and sizes up to the isize limit, over-granting, worst-case base addresses, arbitrary usize hints (overflow must be reported, never wrapped). Arena part: the arena interpreter with an allocation/reserve-heavy mix under all grant policies, where one user allocation may cause at most one base-allocator call and a chunk created for a layout must serve it.",
         "DESIGN.md 2/C12"),
 "C13": ("exploration", "adjacency-aware reclaim expectations (same address after dealloc+alloc, in-place growth) and a monotone monitor on allocated() classified by the operation that ran",
         "Dealloc/realloc-heavy histories through every wrapper nesting; the ledger knows which block is the most recent and which are interior, so the expectation is never stricter than the statement.",
         "DESIGN.md 2/C13"),
 "C14": ("exploration", "outcome classification of requests on a claimed handle, zero stats, hand-over tuple at guard drop (normal and unwinding)",
         "Claims nested up to 3 deep, scopes and chunk growth inside the claim, probes of the original between guard operations, unwinding out of the claim.",
         "DESIGN.md 2/C14"),
 "C17": ("exploration", "lock-step pair of arenas in identical states: same request through two different entry points, compared on (chunk index, offset in chunk, length, value bytes) and (allocated, count, size, remaining); requests: 25 typed allocation kinds, BumpVec / MutBumpVec / MutBumpVecRev sessions over every allocator handle, Allocator sessions (grow, grow_zeroed, shrink, deallocate), checkpoint/reset_to, alloc_try_with twins",
         "25 request kinds (typed value/slice/str/fmt/cstr/iter/uninit allocations, the *_mut helpers, reserve, the raw Allocator interface, the BumpAllocatorTyped layout methods) x up to 16 entry points each (inherent forwarders on Bump and BumpScope, the trait implementations reached through BumpScope, &Bump, &BumpScope, &mut, WithoutDealloc, WithoutShrink and the four dyn types; panicking and try_), over 6 settings/base-allocator configurations; entry points whose wrapper changes the meaning of an operation are excluded for that operation only.",
         "DESIGN.md 2/C17"),
 "C19": ("exploration", "concurrent registry of live guards keyed by arena identity (exclusivity), created <= peak-live upper bound, global list of patterned blocks re-read after migration and at the end, thread-safe MonAlloc ledger for reset/reset_to_start/drop, Miri data-race detection with per-shard scheduler seeds (TSan in thorough)",
         "Schedules are sampled, not enumerated: 2-16 threads, all six acquisition methods, seeded yields/spins/sleeps at the harness boundary, guards held across pauses to force arena creation, random base-allocator refusals in a quarter of the runs; the evidence counts the distinct get/drop interleavings actually observed. The registry interval lies inside the true guard lifetime and the peak counter outside it, so both checks can miss but cannot accuse correct code.",
         "DESIGN.md 2/C19"),
 "C18": ("exploration", "position modulo N probes at region entry/after every op/at exit, exact restore after scoped_aligned, conversion outcome classification",
         "Random nestings of aligned/scoped_aligned/scoped over all 25 (outer, inner) pairs, both directions, unwinding; by-value and borrow conversions incl. the runtime requirement checks.",
         "DESIGN.md 2/C18"),
}
m = {
 "version": 1,
 "setup_cmd": "python3 /verif/check.py --build-all",
 "hooks": {
  "guard": "bump_scope_verif",
  "enable": "no source hooks are needed: all observation happens at the public API (stats, returned pointers) and at the base-allocator boundary (MonAlloc); the reserved cfg guards no code in /repo",
  "baseline_off_cmd": "cd /repo && (cargo nextest run --workspace --no-fail-fast --test-threads 8 --offline || cargo test --workspace --no-fail-fast --offline)",
  "source_commits": [],
  "add_only": True
 },
 "engines": [
  {"name": "pure", "path": "harness/src/bin/pure.rs", "serves_properties": ["C11", "C12"], "kind_free_text": "the crate's dependency-free arithmetic files compiled from /repo via #[path] and run against a wide-integer reference specification"},
  {"name": "pool", "path": "harness/src/bin/pool.rs", "serves_properties": ["C19"], "kind_free_text": "multi-threaded stress of the real BumpPool with online monitors and an event log; Miri (race detector) and TSan variants"},
  {"name": "lockstep", "path": "harness/src/bin/lockstep.rs", "serves_properties": ["C17", "C07"], "kind_free_text": "two real arenas driven in lock-step through pairs of entry points (typed requests, collection sessions, allocator sessions, checkpoints), compared after every request; --refuse makes the base allocator refuse from a random operation on"},
  {"name": "coll", "path": "harness/src/bin/coll.rs", "serves_properties": ["C06", "C07", "C08", "C09", "C15", "C16"], "kind_free_text": "generated operation histories on the real collections in lock-step with std reference models, a per-identity drop ledger with injected callback panics, and MonAlloc fault injection"},
  {"name": "arena", "path": "harness/src/bin/arena.rs", "serves_properties": ["C01", "C02", "C03", "C05", "C07", "C10", "C12", "C13", "C14", "C15", "C18"], "kind_free_text": "generated operation histories over the real arena with online monitors (shadow ledger, stats walker, MonAlloc ledger), run natively (debug+release), under Miri, ASan and valgrind"}
 ],
 "checks": [],
 "not_applicable": [
  {"property_id": "C04", "reason": "decided by rustc's borrow checker on programs that must be rejected: there is no execution for a runtime monitor to observe (DESIGN.md section 3)"}
 ],
 "notes": "fix: commits in /repo repair genuine defects the monitors found (see known_findings.json and DESIGN.md section 6)"
}
for pid, (cat, tech, text, ref) in CHECKS.items():
    m["checks"].append({
        "property_id": pid,
        "quick_cmd": f"python3 /verif/check.py {pid} --tier quick",
        "thorough_cmd": f"python3 /verif/check.py {pid} --tier thorough",
        "evidence_file": f"/verif/evidence/{pid}.json",
        "replay_cmd_template": f"python3 /verif/check.py {pid} --replay {{path}}",
        "engine": {"C11": "pure", "C12": "pure+arena", "C06": "coll", "C08": "coll", "C09": "coll", "C16": "coll", "C17": "lockstep", "C19": "pool", "C07": "coll+arena+lockstep", "C15": "coll+arena"}.get(pid, "arena"),
        "level_claimed": {"category": cat, "text": text, "design_ref": ref},
        "level_note": "held on the executions observed (counts in the evidence file); trusts the harness' own oracles, MonAlloc, the nightly toolchain, Miri/ASan/valgrind; paths no workload reached are not covered",
        "technique": tech,
    })
json.dump(m, open("/verif/MANIFEST.json", "w"), indent=1)
print("checks:", len(m["checks"]))
