//! Plain-data snapshot of the arena's public statistics (typed and type-erased) and the C10 walker.

use bump_scope::settings::BumpAllocatorSettings;
use bump_scope::stats::{AnyStats, Stats};
use std::ptr::NonNull;

use crate::monalloc::MonState;

#[derive(Clone, Copy, Debug, PartialEq, Eq)]
pub struct ChunkInfo {
    pub chunk_start: usize,
    pub chunk_end: usize,
    pub content_start: usize,
    pub content_end: usize,
    pub pos: usize,
    pub size: usize,
    pub capacity: usize,
    pub allocated: usize,
    pub remaining: usize,
}

#[derive(Clone, Debug, Default, PartialEq, Eq)]
pub struct StatView {
    pub count: usize,
    pub size: usize,
    pub capacity: usize,
    pub allocated: usize,
    pub remaining: usize,
    pub fwd: Vec<ChunkInfo>,
    pub bwd: Vec<ChunkInfo>,
    pub cur: Option<ChunkInfo>,
    pub truncated: bool,
}

#[derive(Clone, Debug)]
pub struct Snap {
    pub typed: StatView,
    pub any: StatView,
    /// content start pointers (with provenance) of the chunks in `typed.fwd`
    pub content_ptrs: Vec<NonNull<u8>>,
    pub iters: IterView,
}

impl Snap {
    pub fn empty() -> Snap {
        Snap { typed: Default::default(), any: Default::default(), content_ptrs: Vec::new(), iters: Default::default() }
    }
}

/// The same chunk list read through the iterator API (chunk start addresses) and the typed statistics
/// converted to the type-erased form.
#[derive(Clone, Debug, Default)]
pub struct IterView {
    pub taken: bool,
    pub t_s2b: Vec<usize>,
    pub t_b2s: Vec<usize>,
    pub a_s2b: Vec<usize>,
    pub a_b2s: Vec<usize>,
    pub t_next: Vec<usize>,
    pub t_prev: Vec<usize>,
    pub a_next: Vec<usize>,
    pub a_prev: Vec<usize>,
    pub converted: StatView,
}

const MAX_WALK: usize = 4096;

pub fn view_typed<A, S: BumpAllocatorSettings>(st: Stats<'_, A, S>) -> (StatView, Vec<NonNull<u8>>) {
    let mut ptrs = Vec::new();
    let conv = |c: bump_scope::stats::Chunk<'_, A, S>| ChunkInfo {
        chunk_start: c.chunk_start().addr().get(),
        chunk_end: c.chunk_end().addr().get(),
        content_start: c.content_start().addr().get(),
        content_end: c.content_end().addr().get(),
        pos: c.bump_position().addr().get(),
        size: c.size(),
        capacity: c.capacity(),
        allocated: c.allocated(),
        remaining: c.remaining(),
    };
    let mut v = StatView::default();
    v.cur = st.current_chunk().map(conv);
    if v.cur.is_some() {
        // walk manually with a bound, so that a corrupted (cyclic) list cannot hang the monitor
        let mut first = st.current_chunk().unwrap();
        let mut n = 0;
        while let Some(p) = first.prev() {
            first = p;
            n += 1;
            if n > MAX_WALK {
                v.truncated = true;
                break;
            }
        }
        let mut it = Some(first);
        while let Some(c) = it {
            v.fwd.push(conv(c));
            ptrs.push(c.content_start());
            if v.fwd.len() > MAX_WALK {
                v.truncated = true;
                break;
            }
            it = c.next();
        }
        let mut last = st.current_chunk().unwrap();
        n = 0;
        while let Some(p) = last.next() {
            last = p;
            n += 1;
            if n > MAX_WALK {
                v.truncated = true;
                break;
            }
        }
        let mut it = Some(last);
        while let Some(c) = it {
            v.bwd.push(conv(c));
            if v.bwd.len() > MAX_WALK {
                v.truncated = true;
                break;
            }
            it = c.prev();
        }
    }
    if !v.truncated {
        v.count = st.count();
        v.size = st.size();
        v.capacity = st.capacity();
        v.allocated = st.allocated();
        v.remaining = st.remaining();
    }
    (v, ptrs)
}

pub fn view_any(st: AnyStats<'_>) -> StatView {
    let conv = |c: bump_scope::stats::AnyChunk<'_>| ChunkInfo {
        chunk_start: c.chunk_start().addr().get(),
        chunk_end: c.chunk_end().addr().get(),
        content_start: c.content_start().addr().get(),
        content_end: c.content_end().addr().get(),
        pos: c.bump_position().addr().get(),
        // wrapping: a broken view must be reported by the walker, not crash the monitor
        size: c.chunk_end().addr().get().wrapping_sub(c.chunk_start().addr().get()),
        capacity: c.content_end().addr().get().wrapping_sub(c.content_start().addr().get()),
        allocated: usize::MAX,
        remaining: usize::MAX,
    };
    // `allocated`/`remaining` of AnyChunk subtract addresses; in a debug build a wrong view would
    // overflow-panic inside bump-scope.  Compute them through the accessors only when they are sane.
    let conv2 = |c: bump_scope::stats::AnyChunk<'_>| {
        let mut i = conv(c);
        let (cs, ce, p) = (i.content_start, i.content_end, i.pos);
        if cs <= p && p <= ce {
            i.allocated = c.allocated();
            i.remaining = c.remaining();
            i.size = c.size();
            i.capacity = c.capacity();
        }
        i
    };
    let mut v = StatView::default();
    v.cur = st.current_chunk().map(conv2);
    let mut sane = true;
    if let Some(cur) = st.current_chunk() {
        let mut first = cur;
        let mut n = 0;
        while let Some(p) = first.prev() {
            first = p;
            n += 1;
            if n > MAX_WALK {
                v.truncated = true;
                break;
            }
        }
        let mut it = Some(first);
        while let Some(c) = it {
            let i = conv2(c);
            if i.allocated == usize::MAX {
                sane = false;
            }
            v.fwd.push(i);
            if v.fwd.len() > MAX_WALK {
                v.truncated = true;
                break;
            }
            it = c.next();
        }
        let mut last = cur;
        n = 0;
        while let Some(p) = last.next() {
            last = p;
            n += 1;
            if n > MAX_WALK {
                v.truncated = true;
                break;
            }
        }
        let mut it = Some(last);
        while let Some(c) = it {
            v.bwd.push(conv2(c));
            if v.bwd.len() > MAX_WALK {
                v.truncated = true;
                break;
            }
            it = c.prev();
        }
    }
    if !v.truncated && sane {
        v.count = st.count();
        v.size = st.size();
        v.capacity = st.capacity();
        v.allocated = st.allocated();
        v.remaining = st.remaining();
    } else {
        v.count = usize::MAX;
    }
    v
}

pub fn snap<A, S: BumpAllocatorSettings>(st: Stats<'_, A, S>, any: AnyStats<'_>) -> Snap {
    let (typed, content_ptrs) = view_typed(st);
    let anyv = view_any(any);
    let mut iters = IterView::default();
    // the library's own iterators first walk to one end of the list: only on a list the bounded walk found finite
    if !typed.truncated && !anyv.truncated {
        let cap = MAX_WALK + 1;
        iters.taken = true;
        iters.t_s2b = st.small_to_big().take(cap).map(|c| c.chunk_start().addr().get()).collect();
        iters.t_b2s = st.big_to_small().take(cap).map(|c| c.chunk_start().addr().get()).collect();
        iters.a_s2b = any.small_to_big().take(cap).map(|c| c.chunk_start().addr().get()).collect();
        iters.a_b2s = any.big_to_small().take(cap).map(|c| c.chunk_start().addr().get()).collect();
        if let Some(c) = st.current_chunk() {
            iters.t_next = c.iter_next().take(cap).map(|c| c.chunk_start().addr().get()).collect();
            iters.t_prev = c.iter_prev().take(cap).map(|c| c.chunk_start().addr().get()).collect();
        }
        if let Some(c) = any.current_chunk() {
            iters.a_next = c.iter_next().take(cap).map(|c| c.chunk_start().addr().get()).collect();
            iters.a_prev = c.iter_prev().take(cap).map(|c| c.chunk_start().addr().get()).collect();
        }
        iters.converted = view_any(AnyStats::from(st));
    }
    Snap { typed, any: anyv, content_ptrs, iters }
}

pub struct WalkCfg {
    pub up: bool,
    pub min_align: usize,
    /// the arena is known to be claimed or never allocated: every number must be zero
    pub expect_empty: bool,
}

/// The C10 walker.  Returns (signature, detail) for every incoherence found.
pub fn walk(s: &Snap, cfg: &WalkCfg, mon: Option<&MonState>) -> Vec<(String, String)> {
    let mut out: Vec<(String, String)> = Vec::new();
    let mut bad = |sig: &str, d: String| {
        if out.len() < 8 {
            out.push((sig.to_string(), d));
        }
    };
    let t = &s.typed;
    if t.truncated {
        bad("chunk_list_cyclic", "walk exceeded bound".into());
        return out;
    }
    if cfg.expect_empty {
        if t.count != 0 || t.size != 0 || t.capacity != 0 || t.allocated != 0 || t.remaining != 0 || t.cur.is_some() {
            bad("empty_arena_reports_nonzero", format!("typed stats {:?}", (t.count, t.size, t.capacity, t.allocated, t.remaining)));
        }
        let a = &s.any;
        if a.count != 0 || a.size != 0 || a.capacity != 0 || a.allocated != 0 || a.remaining != 0 || a.cur.is_some() {
            bad("empty_arena_reports_nonzero_any", format!("any stats {:?}", (a.count, a.size, a.capacity, a.allocated, a.remaining)));
        }
        return out;
    }
    if let Some(c) = &t.cur {
        if !(c.content_start <= c.pos && c.pos <= c.content_end) {
            bad("position_outside_content", format!("pos {:#x} content {:#x}..{:#x}", c.pos, c.content_start, c.content_end));
        }
        if c.pos % cfg.min_align != 0 {
            bad("position_not_min_aligned", format!("pos {:#x} min_align {}", c.pos, cfg.min_align));
        }
        if !t.fwd.iter().any(|x| x.chunk_start == c.chunk_start) {
            bad("current_chunk_not_in_list", format!("{:#x}", c.chunk_start));
        }
    }
    // forwards == reverse(backwards)
    if t.fwd.len() != t.bwd.len() || t.fwd.iter().zip(t.bwd.iter().rev()).any(|(a, b)| a.chunk_start != b.chunk_start) {
        bad(
            "forward_backward_lists_differ",
            format!("fwd {:x?} bwd {:x?}", t.fwd.iter().map(|c| c.chunk_start).collect::<Vec<_>>(), t.bwd.iter().map(|c| c.chunk_start).collect::<Vec<_>>()),
        );
    }
    if t.count != t.fwd.len() {
        bad("count_differs_from_walk", format!("count() {} walked {}", t.count, t.fwd.len()));
    }
    let (mut ssum, mut csum) = (0usize, 0usize);
    for (i, c) in t.fwd.iter().enumerate() {
        ssum += c.size;
        csum += c.capacity;
        if c.size % 16 != 0 {
            bad("chunk_size_not_multiple_of_16", format!("chunk {i} size {}", c.size));
        }
        if c.chunk_end.wrapping_sub(c.chunk_start) != c.size {
            bad("chunk_size_differs_from_range", format!("chunk {i} size {} range {:#x}..{:#x}", c.size, c.chunk_start, c.chunk_end));
        }
        if !(c.chunk_start <= c.content_start && c.content_start <= c.content_end && c.content_end <= c.chunk_end) {
            bad("content_outside_chunk", format!("chunk {i} {:x?}", c));
        }
        if c.content_end.wrapping_sub(c.content_start) != c.capacity {
            bad("capacity_differs_from_range", format!("chunk {i} {:x?}", c));
        }
        if !(c.content_start <= c.pos && c.pos <= c.content_end) {
            bad("chunk_position_outside_content", format!("chunk {i} {:x?}", c));
        } else if c.allocated + c.remaining != c.capacity || c.capacity > c.size {
            bad("chunk_allocated_plus_remaining", format!("chunk {i} {:x?}", c));
        } else {
            let (al, rem) = if cfg.up { (c.pos - c.content_start, c.content_end - c.pos) } else { (c.content_end - c.pos, c.pos - c.content_start) };
            if al != c.allocated || rem != c.remaining {
                bad("chunk_allocated_wrong_side", format!("chunk {i} {:x?} expected allocated {al} remaining {rem}", c));
            }
        }
        if i > 0 && c.size <= t.fwd[i - 1].size {
            bad("chunk_not_larger_than_predecessor", format!("chunk {} size {} after {}", i, c.size, t.fwd[i - 1].size));
        } else if i > 0 && c.size + 16 < 2 * t.fwd[i - 1].size {
            // C12 (the callers route this signature to that property): growth at least doubles, less 16 bytes
            bad("later_chunk_smaller_than_twice_previous", format!("chunk {} size {} after {} (twice is {})", i, c.size, t.fwd[i - 1].size, 2 * t.fwd[i - 1].size));
        }
        if let Some(m) = mon {
            if m.containing(c.chunk_start, c.size).is_none() {
                bad("chunk_outside_granted_block", format!("chunk {i} {:#x}..{:#x} not inside a live grant", c.chunk_start, c.chunk_end));
            }
        }
    }
    if t.size != ssum {
        bad("size_differs_from_sum", format!("size() {} sum {}", t.size, ssum));
    }
    if t.capacity != csum {
        bad("capacity_differs_from_sum", format!("capacity() {} sum {}", t.capacity, csum));
    }
    if t.allocated.wrapping_add(t.remaining) != t.capacity || t.capacity > t.size {
        bad("allocated_plus_remaining_ne_capacity", format!("allocated {} remaining {} capacity {} size {}", t.allocated, t.remaining, t.capacity, t.size));
    }
    // the documented composition: everything before the current chunk counts as allocated
    if let Some(cur) = &t.cur {
        if let Some(ci) = t.fwd.iter().position(|x| x.chunk_start == cur.chunk_start) {
            let before: usize = t.fwd[..ci].iter().map(|c| c.capacity).sum();
            let after: usize = t.fwd[ci + 1..].iter().map(|c| c.capacity).sum();
            if cur.content_start <= cur.pos && cur.pos <= cur.content_end {
                if t.allocated != before + cur.allocated {
                    bad("allocated_composition", format!("allocated() {} expected {}", t.allocated, before + cur.allocated));
                }
                if t.remaining != after + cur.remaining {
                    bad("remaining_composition", format!("remaining() {} expected {}", t.remaining, after + cur.remaining));
                }
            }
        }
    }
    // typed == type-erased
    let a = &s.any;
    if a.truncated || a.count == usize::MAX {
        bad("any_stats_incoherent", format!("type-erased view has positions outside its own content ranges: cur {:x?}", a.cur));
    }
    if a.fwd.len() != t.fwd.len() {
        bad("any_stats_chunk_count", format!("typed {} any {}", t.fwd.len(), a.fwd.len()));
    } else {
        for (i, (x, y)) in t.fwd.iter().zip(a.fwd.iter()).enumerate() {
            if x != y {
                let f = first_field_diff(x, y);
                bad(&format!("any_chunk_differs:{f}"), format!("chunk {i} typed {:x?} any {:x?}", x, y));
                break;
            }
        }
    }
    if a.cur.map(|c| c.chunk_start) != t.cur.map(|c| c.chunk_start) {
        bad("any_stats_current_chunk", format!("typed {:x?} any {:x?}", t.cur, a.cur));
    }
    if a.count != usize::MAX {
        for (name, x, y) in [
            ("count", t.count, a.count),
            ("size", t.size, a.size),
            ("capacity", t.capacity, a.capacity),
            ("allocated", t.allocated, a.allocated),
            ("remaining", t.remaining, a.remaining),
        ] {
            if x != y {
                bad(&format!("any_stats_differs:{name}"), format!("{name}: typed {x} any {y}"));
            }
        }
    }
    // the iterator API and the typed -> type-erased conversion read the same list
    let it = &s.iters;
    if it.taken {
        let fwd: Vec<usize> = t.fwd.iter().map(|c| c.chunk_start).collect();
        let bwd: Vec<usize> = t.bwd.iter().map(|c| c.chunk_start).collect();
        let ci = t.cur.and_then(|c| fwd.iter().position(|x| *x == c.chunk_start));
        let after: Vec<usize> = ci.map_or(vec![], |i| fwd[i + 1..].to_vec());
        let before: Vec<usize> = ci.map_or(vec![], |i| fwd[..i].iter().rev().copied().collect());
        for (name, got, want) in [
            ("small_to_big", &it.t_s2b, &fwd),
            ("big_to_small", &it.t_b2s, &bwd),
            ("any_small_to_big", &it.a_s2b, &fwd),
            ("any_big_to_small", &it.a_b2s, &bwd),
            ("iter_next", &it.t_next, &after),
            ("iter_prev", &it.t_prev, &before),
            ("any_iter_next", &it.a_next, &after),
            ("any_iter_prev", &it.a_prev, &before),
        ] {
            if got != want {
                bad(&format!("chunk_iterator_differs:{name}"), format!("{name} yields {got:x?}, the linked list reads {want:x?}"));
            }
        }
        if it.converted != s.any {
            bad("converted_stats_differ_from_any_stats", format!("AnyStats::from(stats) {:x?} vs any_stats() {:x?}", (it.converted.count, it.converted.size, it.converted.allocated), (s.any.count, s.any.size, s.any.allocated)));
        }
    }
    out
}

fn first_field_diff(x: &ChunkInfo, y: &ChunkInfo) -> &'static str {
    if x.chunk_start != y.chunk_start {
        "chunk_start"
    } else if x.chunk_end != y.chunk_end {
        "chunk_end"
    } else if x.content_start != y.content_start {
        "content_start"
    } else if x.content_end != y.content_end {
        "content_end"
    } else if x.pos != y.pos {
        "bump_position"
    } else if x.size != y.size {
        "size"
    } else if x.capacity != y.capacity {
        "capacity"
    } else if x.allocated != y.allocated {
        "allocated"
    } else {
        "remaining"
    }
}
