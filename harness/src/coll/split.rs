//! C16: splitting and merging owned slices (see `run_split_history`).
