//! C16: splitting and merging owned slices.  A population of parts (boxed slices, fixed vectors,
//! vectors) that all descend from one allocation is split, merged and mutated; after every step
//! every part must hold exactly its modelled elements.

use super::hist::CollParams;
use super::vecs::VCtx;
use crate::arena::{PanicKind, classify, guarded};
use crate::monalloc::{FailPlan, MonHandle, MonState, Policy, Shared, set_current};
use crate::out::Report;
use crate::rng::{Rng, hash_str, mix};
use crate::tr::{self, Elem};
use bump_scope::settings::BumpAllocatorSettings;
use bump_scope::{BaseAllocator, Bump, BumpBox, BumpScope, BumpVec, FixedBumpVec};
use std::cell::RefCell;
use std::collections::BTreeSet;
use std::ops::Bound;
use std::rc::Rc;

enum Part<'b, E, A, S>
where
    A: MonHandle + BaseAllocator<S::GuaranteedAllocated>,
    S: BumpAllocatorSettings,
{
    Boxed(BumpBox<'b, [E]>),
    Fixed(FixedBumpVec<'b, E>),
    Vec(BumpVec<E, &'b BumpScope<'b, A, S>>),
}

impl<'b, E: Elem, A, S> Part<'b, E, A, S>
where
    A: MonHandle + BaseAllocator<S::GuaranteedAllocated>,
    S: BumpAllocatorSettings,
{
    fn slice(&self) -> &[E] {
        match self {
            Part::Boxed(b) => b,
            Part::Fixed(f) => f,
            Part::Vec(v) => v,
        }
    }
    fn cap(&self) -> usize {
        match self {
            Part::Boxed(b) => b.len(),
            Part::Fixed(f) => f.capacity(),
            Part::Vec(v) => v.capacity(),
        }
    }
    fn kind(&self) -> &'static str {
        match self {
            Part::Boxed(_) => "BumpBox<[T]>",
            Part::Fixed(_) => "FixedBumpVec",
            Part::Vec(_) => "BumpVec",
        }
    }
    fn addr(&self) -> usize {
        self.slice().as_ptr() as usize
    }
}

fn gen_range(rng: &mut Rng, len: usize) -> (Bound<usize>, Bound<usize>) {
    // all (start, end) pairs incl. empty, full, prefix, suffix, interior and a few invalid ones
    let a = rng.range(0, len + 1);
    let b = rng.range(0, len + 1);
    let (a, b) = if a > b && rng.chance(9, 10) { (b, a) } else { (a, b) };
    let lo = if a == 0 && rng.bool() { Bound::Unbounded } else { Bound::Included(a) };
    let hi = if b == len && rng.bool() { Bound::Unbounded } else { Bound::Excluded(b) };
    (lo, hi)
}

pub fn run_split_history<A, S, E>(rep: &mut Report, p: &CollParams, hist: u64, seed: u64, _fail: FailPlan)
where
    A: MonHandle + BaseAllocator<S::GuaranteedAllocated>,
    S: BumpAllocatorSettings,
    E: Elem,
{
    let rng = Rng::new(seed);
    let cfg = format!("split<{}>/{}{}/{}", E::NAME, if S::UP { "U" } else { "D" }, S::MIN_ALIGN, A::NAME);
    let mon: Shared = Rc::new(RefCell::new(MonState::new(if p.thick { Policy::thick() } else { Policy::thin() }, FailPlan::default(), seed)));
    set_current(Some(mon.clone()));
    tr::reset_ledger();
    rep.histories += 1;
    let mut ctx = VCtx { rng, rep, cfg, hist, op: 0, desc: String::new(), mon: Some(mon.clone()), viols: 0, trace: Vec::new(), leaked: BTreeSet::new(), leaked_z: 0, injected: 0, hit: 0 };
    if let Err(pl) = guarded(|| body::<A, S, E>(&mut ctx, p)) {
        match classify(&pl) {
            PanicKind::Msg(m) => ctx.viol("C16", format!("unexpected_panic:{}", crate::arena::msg_sig(&m)), format!("{} :: {m}", ctx.desc)),
            k => ctx.viol("C16", format!("unexpected_panic:{k:?}"), ctx.desc.clone()),
        }
    }
    let lv = tr::ledger_view();
    if ctx.viols == 0 {
        if E::TRACKED && !E::ZST && !lv.live_ids.is_empty() {
            ctx.viol("C06", "value_never_dropped:split".into(), format!("ids {:?}", &lv.live_ids[..lv.live_ids.len().min(8)]));
        }
        if E::TRACKED && E::ZST && lv.z_live != 0 {
            ctx.viol("C06", "zst_value_count_at_teardown:split".into(), format!("{}", lv.z_live));
        }
        if !lv.double_drops.is_empty() {
            ctx.viol("C06", "value_dropped_twice:split".into(), format!("{:?}", lv.double_drops));
        }
        let mut m = mon.borrow_mut();
        m.check_quiescent();
        let probs: Vec<_> = m.problems.drain(..).collect();
        let leaked = m.live_count;
        drop(m);
        for (sig, d) in probs {
            ctx.viol("C05", sig, d);
        }
        if leaked != 0 {
            ctx.viol("C05", "chunk_never_released".into(), format!("{leaked} grants"));
        }
    }
    set_current(None);
    let h = mix(&[hash_str(&ctx.cfg), hash_str(&ctx.trace.join(";"))]);
    if ctx.hit != 0 {
        ctx.rep.nontrivial.insert(h);
    }
    ctx.rep.states.insert(mix(&[hash_str(&ctx.cfg), ctx.hit]));
    if ctx.rep.samples.len() < 2 && ctx.trace.len() > 4 {
        let s = format!("[{} hist {hist} seed {seed}] {}", ctx.cfg, ctx.trace.iter().take(24).cloned().collect::<Vec<_>>().join(" ; "));
        ctx.rep.samples.push(s);
    }
}

fn vals<E: Elem>(s: &[E]) -> Vec<u32> {
    s.iter().map(|e| e.val()).collect()
}

/// every part holds exactly its model; parts do not overlap in memory; no id is owned twice
fn check_all<'b, E: Elem, A, S>(parts: &[(Part<'b, E, A, S>, Vec<u32>)], ctx: &mut VCtx, touched: Option<usize>)
where
    A: MonHandle + BaseAllocator<S::GuaranteedAllocated>,
    S: BumpAllocatorSettings,
{
    let mut ids: Vec<u32> = Vec::new();
    let mut iv: Vec<(usize, usize, usize)> = Vec::new();
    for (i, (part, model)) in parts.iter().enumerate() {
        let now = vals(part.slice());
        if now != *model {
            let what = if Some(i) == touched { "part_contents_differ_from_model" } else { "sibling_part_changed" };
            ctx.viol("C16", format!("{what}:{}", part.kind()), format!("part {i} real {:?} model {:?} after {}", &now[..now.len().min(16)], &model[..model.len().min(16)], ctx.desc));
        }
        if part.cap() < part.slice().len() {
            ctx.viol("C16", format!("capacity_below_len:{}", part.kind()), format!("{} < {}", part.cap(), part.slice().len()));
        }
        ids.extend(part.slice().iter().filter_map(|e| e.id()));
        if !E::ZST && part.cap() > 0 {
            iv.push((part.addr(), part.addr() + part.cap() * size_of::<E>(), i));
        }
    }
    ids.sort_unstable();
    if ids.windows(2).any(|w| w[0] == w[1]) {
        ctx.viol("C16", "element_owned_by_two_parts".into(), format!("{ids:?}"));
    }
    iv.sort_unstable();
    for w in iv.windows(2) {
        if w[1].0 < w[0].1 {
            ctx.viol("C16", "parts_overlap_in_memory".into(), format!("part {} {:#x}..{:#x} and part {} {:#x}..{:#x}", w[0].2, w[0].0, w[0].1, w[1].2, w[1].0, w[1].1));
        }
    }
    let lv = tr::ledger_view();
    if !lv.double_drops.is_empty() {
        ctx.viol("C06", "value_dropped_twice:split".into(), format!("{:?}", lv.double_drops));
    }
    if !lv.use_after_drop.is_empty() {
        ctx.viol("C06", "value_used_after_drop:split".into(), format!("{:?}", lv.use_after_drop));
    }
    tr::clear_incidents();
    if E::TRACKED && !E::ZST {
        let lost: Vec<u32> = lv.live_ids.iter().copied().filter(|i| ids.binary_search(i).is_err()).collect();
        if !lost.is_empty() {
            ctx.viol("C16", "element_lost_by_split".into(), format!("ids {lost:?} are in no part after {}", ctx.desc));
        }
    } else if E::TRACKED {
        let total: usize = parts.iter().map(|p| p.0.slice().len()).sum();
        if lv.z_live != total as i64 {
            ctx.viol("C16", "zst_element_count_changed_by_split".into(), format!("live {} in parts {total} after {}", lv.z_live, ctx.desc));
        }
    }
}

fn body<A, S, E>(ctx: &mut VCtx, p: &CollParams)
where
    A: MonHandle + BaseAllocator<S::GuaranteedAllocated>,
    S: BumpAllocatorSettings,
    E: Elem,
{
    let mon = ctx.mon.clone().unwrap();
    ctx.begin("init".into());
    let Ok(mut bump) = Bump::<A, S>::try_new_in(A::with(&mon)) else { return };
    if ctx.rng.chance(1, 4) {
        // into_flattened of the exclusive-borrow vectors (they need the arena to themselves, so this comes first)
        let k = ctx.rng.range(0, 7);
        let vals: Vec<u32> = (0..2 * k).map(|_| ctx.rng.below(E::MODULUS as usize) as u32 % E::MODULUS).collect();
        let rev = ctx.rng.bool();
        ctx.begin(format!("into_flattened of {k} arrays [T;2] ({})", if rev { "MutBumpVecRev<[T;2]>" } else { "MutBumpVec<[T;2]>" }));
        let ms = bump.as_mut_scope();
        let got: Vec<u32> = if rev {
            let mut v = bump_scope::MutBumpVecRev::with_capacity_in(k / 2, ms);
            // pushes prepend: feed the arrays back to front so that the slice reads like `vals`
            for c in vals.chunks(2).rev() {
                v.push([E::make(c[0]), E::make(c[1])]);
            }
            let flat = v.into_flattened();
            if flat.capacity() < flat.len() {
                ctx.viol("C16", "into_flattened_capacity_below_len".into(), format!("{} < {}", flat.capacity(), flat.len()));
            }
            flat.iter().map(|e| e.val()).collect()
        } else {
            let mut v = bump_scope::MutBumpVec::with_capacity_in(k / 2, ms);
            for c in vals.chunks(2) {
                v.push([E::make(c[0]), E::make(c[1])]);
            }
            let flat = v.into_flattened();
            if flat.capacity() < flat.len() {
                ctx.viol("C16", "into_flattened_capacity_below_len".into(), format!("{} < {}", flat.capacity(), flat.len()));
            }
            flat.iter().map(|e| e.val()).collect()
        };
        if got != vals {
            ctx.viol("C16", format!("into_flattened_changed_elements:{}", if rev { "MutBumpVecRev" } else { "MutBumpVec" }), format!("real {got:?} expected {vals:?}"));
        }
        ctx.rep.count("into_flattened_mut");
        ctx.ev("split");
    }
    let s: &BumpScope<A, S> = bump.as_scope();
    let n = ctx.rng.range(0, 24);
    let init: Vec<u32> = (0..n).map(|_| ctx.rng.below(E::MODULUS as usize) as u32 % E::MODULUS).collect();
    let mut parts: Vec<(Part<E, A, S>, Vec<u32>)> = Vec::new();
    // the ancestor: a vector with spare capacity, a fixed vector or a boxed slice
    let spare = ctx.rng.range(0, 10);
    match ctx.rng.below(3) {
        0 => {
            ctx.begin(format!("ancestor: BumpBox<[{}]> len {n}", E::NAME));
            let mut i = 0;
            let b = s.alloc_slice_fill_with(n, || {
                i += 1;
                E::make(init[i - 1])
            });
            parts.push((Part::Boxed(b), init.clone()));
        }
        1 => {
            ctx.begin(format!("ancestor: FixedBumpVec<{}> len {n} cap {}", E::NAME, n + spare));
            let mut f = FixedBumpVec::with_capacity_in(n + spare, s);
            for x in &init {
                f.push(E::make(*x));
            }
            parts.push((Part::Fixed(f), init.clone()));
        }
        _ => {
            ctx.begin(format!("ancestor: BumpVec<{}> len {n} cap >= {}", E::NAME, n + spare));
            let mut v = BumpVec::with_capacity_in(n + spare, s);
            for x in &init {
                v.push(E::make(*x));
            }
            parts.push((Part::Vec(v), init.clone()));
        }
    }
    check_all(&parts, ctx, None);
    if ctx.rng.chance(1, 3) {
        // into_flattened keeps count and order (boxed slice, fixed vector, vector of arrays)
        let k = ctx.rng.range(0, 9);
        let vals: Vec<u32> = (0..2 * k).map(|_| ctx.rng.below(E::MODULUS as usize) as u32 % E::MODULUS).collect();
        let which = ctx.rng.below(3);
        ctx.begin(format!("into_flattened of {k} arrays [T;2] ({})", ["BumpBox<[[T;2]]>", "FixedBumpVec<[T;2]>", "BumpVec<[T;2]>"][which]));
        let mut it = vals.chunks(2).map(|c| [E::make(c[0]), E::make(c[1])]);
        let flat: Part<E, A, S> = match which {
            0 => Part::Boxed(s.alloc_iter(&mut it).into_flattened()),
            1 => {
                let mut f = FixedBumpVec::with_capacity_in(k + ctx.rng.range(0, 3), s);
                for a in &mut it {
                    f.push(a);
                }
                Part::Fixed(f.into_flattened())
            }
            _ => {
                let mut v = BumpVec::with_capacity_in(k, s);
                for a in &mut it {
                    v.push(a);
                }
                Part::Vec(v.into_flattened())
            }
        };
        if flat.cap() < flat.slice().len() {
            ctx.viol("C16", "into_flattened_capacity_below_len".into(), format!("{} < {}", flat.cap(), flat.slice().len()));
        }
        parts.push((flat, vals));
        ctx.rep.count("into_flattened");
        check_all(&parts, ctx, None);
    }
    for _ in 0..p.ops.min(40) {
        if ctx.viols > 3 || parts.is_empty() {
            break;
        }
        let i = ctx.rng.below(parts.len());
        let len = parts[i].1.len();
        let op = ctx.rng.weighted(&[30, 8, 6, 6, 8, 12, 20, 6]);
        match op {
            0 => {
                // split_off(range) on any kind
                let r = gen_range(&mut ctx.rng, len);
                ctx.begin(format!("part {i} ({}) split_off {r:?}", parts[i].0.kind()));
                let cap_before = parts[i].0.cap();
                let expect = guarded(|| std::slice::range(r, ..len));
                let (part, model) = &mut parts[i];
                let res: Result<Option<Part<E, A, S>>, _> = guarded(|| match part {
                    Part::Boxed(b) => Some(Part::Boxed(b.split_off(r))),
                    Part::Fixed(f) => Some(Part::Fixed(f.split_off(r))),
                    Part::Vec(v) => Some(Part::Vec(v.split_off(r))),
                });
                match (res, expect) {
                    (Ok(Some(newp)), Ok(rr)) => {
                        let removed: Vec<u32> = model.drain(rr.clone()).collect();
                        // capacities add up (sized element types)
                        if !E::ZST && !matches!(newp, Part::Boxed(_)) {
                            let sum = parts[i].0.cap() + newp.cap();
                            if sum != cap_before {
                                ctx.viol("C16", format!("capacities_do_not_add_up:{}", newp.kind()), format!("{} + {} != {cap_before} after {}", parts[i].0.cap(), newp.cap(), ctx.desc));
                            }
                        }
                        parts.push((newp, removed));
                        let tag = if rr.is_empty() { "split" } else { "split" };
                        ctx.ev(tag);
                        ctx.rep.count(if rr.start == rr.end { "split_empty" } else if rr.start == 0 && rr.end == len { "split_full" } else if rr.start == 0 { "split_prefix" } else if rr.end == len { "split_suffix" } else { "split_interior" });
                    }
                    (Ok(_), Err(_)) => ctx.viol("C16", "split_off_accepted_invalid_range".into(), format!("{r:?} len {len}")),
                    (Err(pl), Ok(_)) => ctx.viol("C16", "split_off_panicked_on_valid_range".into(), format!("{r:?} len {len}: {:?}", classify(&pl))),
                    (Err(_), Err(_)) => ctx.rep.count("split_invalid_range_rejected"),
                    (Ok(None), Ok(_)) => {}
                }
            }
            1 | 2 | 3 | 4 => {
                // by-value splits of a boxed slice
                if !matches!(parts[i].0, Part::Boxed(_)) {
                    continue;
                }
                let (part, model) = parts.swap_remove(i);
                let Part::Boxed(b) = part else { unreachable!() };
                match op {
                    1 => {
                        let at = ctx.rng.range(0, len + 1);
                        ctx.begin(format!("split_at {at} (len {len})"));
                        match guarded(|| b.split_at(at)) {
                            Ok((l, r)) => {
                                if at > len {
                                    ctx.viol("C16", "split_at_accepted_out_of_range".into(), format!("{at} > {len}"));
                                }
                                let at = at.min(len);
                                parts.push((Part::Boxed(l), model[..at].to_vec()));
                                parts.push((Part::Boxed(r), model[at..].to_vec()));
                                ctx.ev("split");
                            }
                            Err(_) => {
                                if at <= len {
                                    ctx.viol("C16", "split_at_panicked_in_range".into(), format!("{at} <= {len}"));
                                }
                            }
                        }
                    }
                    2 => {
                        let last = ctx.rng.bool();
                        ctx.begin(format!("split_{} (len {len})", if last { "last" } else { "first" }));
                        let r = if last { b.split_last().map(|(x, rest)| (x, rest)) } else { b.split_first() };
                        match r {
                            Some((one, rest)) => {
                                let (xv, restm) = if last { (model[len - 1], model[..len - 1].to_vec()) } else { (model[0], model[1..].to_vec()) };
                                if one.val() != xv {
                                    ctx.viol("C16", "split_first_last_wrong_element".into(), format!("{} vs {xv}", one.val()));
                                }
                                parts.push((Part::Boxed(one.into_boxed_slice()), vec![xv]));
                                parts.push((Part::Boxed(rest), restm));
                                ctx.ev("split");
                            }
                            None => {
                                if len != 0 {
                                    ctx.viol("C16", "split_first_last_none_on_nonempty".into(), format!("len {len}"));
                                }
                            }
                        }
                    }
                    3 => {
                        let last = ctx.rng.bool();
                        ctx.begin(format!("split_off_{} (len {len})", if last { "last" } else { "first" }));
                        let mut b = b;
                        let r = if last { b.split_off_last() } else { b.split_off_first() };
                        let mut m = model;
                        match r {
                            Some(one) => {
                                let xv = if last { m.pop().unwrap() } else { m.remove(0) };
                                if one.val() != xv {
                                    ctx.viol("C16", "split_off_first_last_wrong_element".into(), format!("{} vs {xv}", one.val()));
                                }
                                parts.push((Part::Boxed(one.into_boxed_slice()), vec![xv]));
                                ctx.ev("split");
                            }
                            None => {
                                if len != 0 {
                                    ctx.viol("C16", "split_off_first_last_none_on_nonempty".into(), format!("len {len}"));
                                }
                            }
                        }
                        parts.push((Part::Boxed(b), m));
                    }
                    _ => {
                        let k = ctx.rng.range(2, 3) as u32;
                        ctx.begin(format!("partition val%{k}==0 (len {len})"));
                        let (yes, no) = b.partition(|e| e.val() % k == 0);
                        let (mut my, mut mn): (Vec<u32>, Vec<u32>) = model.iter().partition(|x| **x % k == 0);
                        let (mut ry, mut rn) = (vals(&yes), vals(&no));
                        if ry.iter().any(|x| x % k != 0) || rn.iter().any(|x| x % k == 0) {
                            ctx.viol("C16", "partition_misplaced_element".into(), format!("{ry:?} / {rn:?}"));
                        }
                        // order within the halves is not documented: compare as multisets, then adopt the real order
                        let (oy, on) = (ry.clone(), rn.clone());
                        ry.sort_unstable();
                        rn.sort_unstable();
                        my.sort_unstable();
                        mn.sort_unstable();
                        if ry != my || rn != mn {
                            ctx.viol("C16", "partition_lost_or_duplicated_elements".into(), format!("{ry:?}/{rn:?} vs {my:?}/{mn:?}"));
                        }
                        parts.push((Part::Boxed(yes), oy));
                        parts.push((Part::Boxed(no), on));
                        ctx.ev("split");
                    }
                }
            }
            5 => {
                // merge two boxed parts: adjacent ones restore the whole, others must be rejected
                let boxed: Vec<usize> = (0..parts.len()).filter(|&j| matches!(parts[j].0, Part::Boxed(_))).collect();
                if boxed.len() < 2 {
                    continue;
                }
                let a = boxed[ctx.rng.below(boxed.len())];
                // prefer a partner that is adjacent in memory
                let a_end = parts[a].0.addr() + parts[a].0.slice().len() * size_of::<E>();
                let adj = boxed.iter().copied().find(|&j| j != a && parts[j].0.addr() == a_end && !E::ZST);
                let b = match adj {
                    Some(j) if ctx.rng.chance(3, 4) => j,
                    _ => {
                        let j = boxed[ctx.rng.below(boxed.len())];
                        if j == a {
                            continue;
                        }
                        j
                    }
                };
                let contiguous = E::ZST || parts[b].0.addr() == a_end;
                ctx.begin(format!("merge part {a} (len {}) with part {b} (len {}) - {}", parts[a].1.len(), parts[b].1.len(), if contiguous { "contiguous" } else { "not contiguous" }));
                let (hi, lo) = if a > b { (a, b) } else { (b, a) };
                let (ph, mh) = parts.swap_remove(hi);
                let (pl, ml) = parts.swap_remove(lo);
                let ((pa, ma), (pb, mb)) = if a > b { ((ph, mh), (pl, ml)) } else { ((pl, ml), (ph, mh)) };
                let (Part::Boxed(ba), Part::Boxed(bb)) = (pa, pb) else { unreachable!() };
                match guarded(|| ba.merge(bb)) {
                    Ok(m) => {
                        if !contiguous {
                            ctx.viol("C16", "merge_accepted_non_adjacent_parts".into(), ctx.desc.clone());
                        }
                        let mut mm = ma;
                        mm.extend(mb);
                        parts.push((Part::Boxed(m), mm));
                        ctx.ev("merge_ok");
                    }
                    Err(_) => {
                        // both operands were dropped by the unwinding
                        if contiguous {
                            ctx.viol("C16", "merge_rejected_adjacent_parts".into(), ctx.desc.clone());
                        }
                        ctx.ev("merge_rejected");
                    }
                }
            }
            6 => {
                // follow-up on one part: the others must not notice
                let (part, model) = &mut parts[i];
                let x = ctx.rng.below(E::MODULUS as usize) as u32 % E::MODULUS;
                match part {
                    Part::Vec(v) => match ctx.rng.below(5) {
                        0 | 1 => {
                            let k = ctx.rng.range(1, 12);
                            ctx.begin(format!("part {i} (BumpVec) push x{k}"));
                            for _ in 0..k {
                                v.push(E::make(x));
                                model.push(x);
                            }
                        }
                        2 => {
                            ctx.begin(format!("part {i} (BumpVec) shrink_to_fit"));
                            v.shrink_to_fit();
                        }
                        3 => {
                            ctx.begin(format!("part {i} (BumpVec) pop"));
                            if v.pop().is_some() {
                                model.pop();
                            }
                        }
                        _ => {
                            ctx.begin(format!("part {i} (BumpVec) reserve 30"));
                            v.reserve(30);
                        }
                    },
                    Part::Fixed(f) => {
                        if ctx.rng.bool() && !f.is_full() {
                            ctx.begin(format!("part {i} (FixedBumpVec) push"));
                            f.push(E::make(x));
                            model.push(x);
                        } else {
                            ctx.begin(format!("part {i} (FixedBumpVec) truncate"));
                            let k = ctx.rng.range(0, len);
                            f.truncate(k);
                            model.truncate(k);
                        }
                    }
                    Part::Boxed(b) => {
                        if ctx.rng.bool() {
                            ctx.begin(format!("part {i} (BumpBox) pop"));
                            if b.pop().is_some() {
                                model.pop();
                            }
                        } else if len > 0 {
                            let k = ctx.rng.below(len);
                            ctx.begin(format!("part {i} (BumpBox) remove {k}"));
                            b.remove(k);
                            model.remove(k);
                        }
                    }
                }
            }
            _ => {
                // a part leaves: dropped, deallocated through the arena, or converted
                let (part, model) = parts.swap_remove(i);
                match part {
                    Part::Vec(v) => {
                        if ctx.rng.bool() {
                            ctx.begin(format!("part {i} (BumpVec) dropped (deallocates its buffer)"));
                            drop(v);
                        } else {
                            ctx.begin(format!("part {i} (BumpVec) into_boxed_slice"));
                            parts.push((Part::Boxed(v.into_boxed_slice()), model));
                        }
                    }
                    Part::Fixed(f) if ctx.rng.chance(1, 3) => {
                        // split_at_spare: the initialised part as a boxed slice, the spare capacity as an uninit slice
                        ctx.begin(format!("part {i} (FixedBumpVec) split_at_spare (len {len} cap {})", f.capacity()));
                        let (cap, start) = (f.capacity(), f.as_ptr() as usize);
                        let (init, spare) = f.split_at_spare();
                        if !E::ZST {
                            if spare.len() != cap - len {
                                ctx.viol("C16", "capacities_do_not_add_up:split_at_spare".into(), format!("{len} + {} != {cap}", spare.len()));
                            }
                            if spare.as_ptr() as usize != start + len * size_of::<E>() {
                                ctx.viol("C16", "split_at_spare_wrong_spare_address".into(), format!("{:#x} vs {:#x}", spare.as_ptr() as usize, start + len * size_of::<E>()));
                            }
                        }
                        parts.push((Part::Boxed(init), model));
                        parts.push((Part::Fixed(FixedBumpVec::from_uninit(spare)), vec![]));
                        ctx.ev("split");
                        ctx.rep.count("split_at_spare");
                    }
                    Part::Fixed(f) => {
                        if ctx.rng.bool() {
                            ctx.begin(format!("part {i} (FixedBumpVec) into_vec"));
                            parts.push((Part::Vec(f.into_vec(s)), model));
                        } else {
                            ctx.begin(format!("part {i} (FixedBumpVec) into_boxed_slice"));
                            parts.push((Part::Boxed(f.into_boxed_slice()), model));
                        }
                    }
                    Part::Boxed(b) => match ctx.rng.below(3) {
                        0 => {
                            ctx.begin(format!("part {i} (BumpBox) dealloc through the arena"));
                            s.dealloc(b);
                        }
                        1 => {
                            ctx.begin(format!("part {i} (BumpBox) -> FixedBumpVec::from_init -> BumpVec::from_parts"));
                            parts.push((Part::Vec(BumpVec::from_parts(FixedBumpVec::from_init(b), s)), model));
                        }
                        _ => {
                            ctx.begin(format!("part {i} (BumpBox) dropped"));
                            drop(b);
                        }
                    },
                }
            }
        }
        check_all(&parts, ctx, None);
    }
    ctx.begin("drop all parts".into());
    drop(parts);
    drop(bump);
}
