//! `VecCore` / `VecFilter` / `VecGrow` for the five vector families, generated per element type.

use super::*;
use crate::monalloc::MonHandle;
use crate::tr::{Tr, TrZ};
use bump_scope::settings::BumpAllocatorSettings;
use bump_scope::{BaseAllocator, Bump, BumpBox, BumpScope, BumpVec, FixedBumpVec, MutBumpVec, MutBumpVecRev};

macro_rules! core_common {
    ($E:ty, $name:literal) => {
        fn family(&self) -> &'static str {
            $name
        }
        fn len(&self) -> usize {
            self.as_slice().len()
        }
        fn slice(&self) -> &[$E] {
            self.as_slice()
        }
        fn pop(&mut self) -> Option<$E> {
            Self::pop(self)
        }
        fn remove(&mut self, i: usize) -> $E {
            Self::remove(self, i)
        }
        fn swap_remove(&mut self, i: usize) -> $E {
            Self::swap_remove(self, i)
        }
        fn truncate(&mut self, n: usize) {
            Self::truncate(self, n)
        }
        fn clear(&mut self) {
            Self::clear(self)
        }
    };
}

macro_rules! filter_impl {
    ($E:ty) => {
        fn retain(&mut self, f: &mut dyn FnMut(&mut $E) -> bool) {
            Self::retain(self, |e| f(e))
        }
        fn dedup(&mut self) {
            Self::dedup(self)
        }
        fn dedup_by(&mut self, f: &mut dyn FnMut(&mut $E, &mut $E) -> bool) {
            Self::dedup_by(self, |a, b| f(a, b))
        }
        fn dedup_by_key(&mut self, f: &mut dyn FnMut(&mut $E) -> u32) {
            Self::dedup_by_key(self, |a| f(a))
        }
        fn drain_script(&mut self, range: (Bound<usize>, Bound<usize>), script: &[bool], end: DrainEnd) -> Vec<$E> {
            let mut d = Self::drain(self, range);
            let mut out = Vec::new();
            for &back in script {
                let x = if back { d.next_back() } else { d.next() };
                match x {
                    Some(e) => out.push(e),
                    None => break,
                }
                // the consumer's own code may panic while the iterator is alive
                crate::tr::burn();
            }
            match end {
                DrainEnd::Drop => drop(d),
                DrainEnd::Forget => std::mem::forget(d),
                DrainEnd::KeepRest => d.keep_rest(),
            }
            out
        }
        fn extract_if_script(&mut self, pred: &mut dyn FnMut(&mut $E) -> bool, take: usize) -> Vec<$E> {
            let mut it = Self::extract_if(self, |e| pred(e));
            let mut out = Vec::new();
            for _ in 0..take {
                match it.next() {
                    Some(e) => out.push(e),
                    None => break,
                }
                crate::tr::burn();
            }
            drop(it);
            out
        }
    };
}

macro_rules! copy_or_clone {
    (copy, $self:ident, $s:ident) => {
        Self::extend_from_slice_copy($self, $s)
    };
    (clone, $self:ident, $s:ident) => {
        Self::extend_from_slice_clone($self, $s)
    };
}
macro_rules! within_copy_or_clone {
    (copy, $self:ident, $r:ident) => {
        Self::extend_from_within_copy($self, $r)
    };
    (clone, $self:ident, $r:ident) => {
        Self::extend_from_within_clone($self, $r)
    };
}

macro_rules! try_copy_or_clone {
    (copy, $self:ident, $s:ident) => {
        Self::try_extend_from_slice_copy($self, $s)
    };
    (clone, $self:ident, $s:ident) => {
        Self::try_extend_from_slice_clone($self, $s)
    };
}
macro_rules! try_within_copy_or_clone {
    (copy, $self:ident, $r:ident) => {
        Self::try_extend_from_within_copy($self, $r)
    };
    (clone, $self:ident, $r:ident) => {
        Self::try_extend_from_within_clone($self, $r)
    };
}

/// index of the element at `addr` (usize::MAX for zero-sized elements, where addresses say nothing)
fn index_of<E>(s: &[E], addr: usize) -> usize {
    if size_of::<E>() == 0 { usize::MAX } else { addr.wrapping_sub(s.as_ptr() as usize) / size_of::<E>() }
}

/// An iterator whose lower size bound is whatever the history says and whose `next` may panic (fuel).
pub struct HintIter<I> {
    pub it: I,
    pub hint: usize,
}
impl<I: Iterator> Iterator for HintIter<I> {
    type Item = I::Item;
    fn next(&mut self) -> Option<I::Item> {
        crate::tr::burn();
        self.it.next()
    }
    fn size_hint(&self) -> (usize, Option<usize>) {
        (self.hint, None)
    }
}

/// consumes `k` elements from the front and `j` from the back of an owned-slice iterator
fn pull<T>(it: &mut (impl Iterator<Item = T> + DoubleEndedIterator), k: usize, j: usize) {
    for _ in 0..k {
        if it.next().is_none() {
            break;
        }
    }
    for _ in 0..j {
        if it.next_back().is_none() {
            break;
        }
    }
}

macro_rules! grow_impl {
    ($E:ty, $cc:tt, $exact:tt, $shrink:tt) => {
        fn push(&mut self, e: $E) {
            Self::push(self, e)
        }
        fn try_push(&mut self, e: $E) -> Result<(), AllocError> {
            Self::try_push(self, e)
        }
        fn push_with(&mut self, f: &mut dyn FnMut() -> $E) {
            Self::push_with(self, || f())
        }
        fn insert(&mut self, i: usize, e: $E) {
            Self::insert(self, i, e)
        }
        fn try_insert(&mut self, i: usize, e: $E) -> Result<(), AllocError> {
            Self::try_insert(self, i, e)
        }
        fn pop_if(&mut self, f: &mut dyn FnMut(&mut $E) -> bool) -> Option<$E> {
            Self::pop_if(self, |e| f(e))
        }
        fn resize(&mut self, n: usize, e: $E) {
            Self::resize(self, n, e)
        }
        fn try_resize(&mut self, n: usize, e: $E) -> Result<(), AllocError> {
            Self::try_resize(self, n, e)
        }
        fn resize_with(&mut self, n: usize, f: &mut dyn FnMut() -> $E) {
            Self::resize_with(self, n, || f())
        }
        fn extend_from_slice_clone(&mut self, s: &[$E]) {
            Self::extend_from_slice_clone(self, s)
        }
        fn try_extend_from_slice_clone(&mut self, s: &[$E]) -> Result<(), AllocError> {
            Self::try_extend_from_slice_clone(self, s)
        }
        fn extend_from_slice_copy(&mut self, s: &[$E]) {
            copy_or_clone!($cc, self, s)
        }
        fn extend_from_within_clone(&mut self, r: (Bound<usize>, Bound<usize>)) {
            Self::extend_from_within_clone(self, r)
        }
        fn extend_from_within_copy(&mut self, r: (Bound<usize>, Bound<usize>)) {
            within_copy_or_clone!($cc, self, r)
        }
        fn append_vec(&mut self, v: Vec<$E>) {
            Self::append(self, v)
        }
        fn try_append_vec(&mut self, v: Vec<$E>) -> Result<(), AllocError> {
            Self::try_append(self, v)
        }
        fn append_array3(&mut self, v: [$E; 3]) {
            Self::append(self, v)
        }
        fn reserve(&mut self, n: usize) {
            Self::reserve(self, n)
        }
        fn try_reserve(&mut self, n: usize) -> Result<(), AllocError> {
            Self::try_reserve(self, n)
        }
        fn try_push_with(&mut self, f: &mut dyn FnMut() -> $E) -> Result<(), AllocError> {
            Self::try_push_with(self, || f())
        }
        fn push_mut(&mut self, e: $E) -> (u32, usize) {
            let r = Self::push_mut(self, e);
            let (val, addr) = (r.val(), r as *mut $E as usize);
            (val, index_of::<$E>(self.as_slice(), addr))
        }
        fn try_push_mut(&mut self, e: $E) -> Result<(u32, usize), AllocError> {
            let r = Self::try_push_mut(self, e)?;
            let (val, addr) = (r.val(), r as *mut $E as usize);
            Ok((val, index_of::<$E>(self.as_slice(), addr)))
        }
        fn push_mut_with(&mut self, f: &mut dyn FnMut() -> $E) -> (u32, usize) {
            let r = Self::push_mut_with(self, || f());
            let (val, addr) = (r.val(), r as *mut $E as usize);
            (val, index_of::<$E>(self.as_slice(), addr))
        }
        fn try_push_mut_with(&mut self, f: &mut dyn FnMut() -> $E) -> Result<(u32, usize), AllocError> {
            let r = Self::try_push_mut_with(self, || f())?;
            let (val, addr) = (r.val(), r as *mut $E as usize);
            Ok((val, index_of::<$E>(self.as_slice(), addr)))
        }
        fn insert_mut(&mut self, i: usize, e: $E) -> (u32, usize) {
            let r = Self::insert_mut(self, i, e);
            let (val, addr) = (r.val(), r as *mut $E as usize);
            (val, index_of::<$E>(self.as_slice(), addr))
        }
        fn try_insert_mut(&mut self, i: usize, e: $E) -> Result<(u32, usize), AllocError> {
            let r = Self::try_insert_mut(self, i, e)?;
            let (val, addr) = (r.val(), r as *mut $E as usize);
            Ok((val, index_of::<$E>(self.as_slice(), addr)))
        }
        fn try_extend_from_slice_copy(&mut self, s: &[$E]) -> Result<(), AllocError> {
            try_copy_or_clone!($cc, self, s)
        }
        fn try_extend_from_within_copy(&mut self, r: (Bound<usize>, Bound<usize>)) -> Result<(), AllocError> {
            try_within_copy_or_clone!($cc, self, r)
        }
        fn try_extend_from_within_clone(&mut self, r: (Bound<usize>, Bound<usize>)) -> Result<(), AllocError> {
            Self::try_extend_from_within_clone(self, r)
        }
        fn try_resize_with(&mut self, n: usize, f: &mut dyn FnMut() -> $E) -> Result<(), AllocError> {
            Self::try_resize_with(self, n, || f())
        }
        fn extend_iter(&mut self, vals: Vec<$E>, by_ref: bool, hint: usize) {
            if by_ref {
                Extend::extend(self, HintIter { it: vals.iter(), hint });
            } else {
                Extend::extend(self, HintIter { it: vals.into_iter(), hint });
            }
        }
        fn append_src(&mut self, kind: usize, vals: Vec<$E>, k: usize, j: usize, try_: bool) -> Result<(), AllocError> {
            macro_rules! go {
                ($src:expr) => {{
                    let src = $src;
                    if try_ {
                        Self::try_append(self, src)
                    } else {
                        Self::append(self, src);
                        Ok(())
                    }
                }};
            }
            let mut side: Bump = Bump::new();
            match kind {
                0 => go!(vals.into_boxed_slice()),
                1 => go!(side.alloc_slice_move(vals)),
                2 => go!(FixedBumpVec::from_iter_exact_in(vals, &side)),
                3 => go!(BumpVec::from_owned_slice_in(vals, &side)),
                4 => go!(MutBumpVec::from_owned_slice_in(vals, &mut side)),
                5 => go!(MutBumpVecRev::from_owned_slice_in(vals, &mut side)),
                6 => {
                    let mut it = side.alloc_slice_move(vals).into_iter();
                    pull(&mut it, k, j);
                    go!(it)
                }
                7 => {
                    let mut b = side.alloc_slice_move(vals);
                    let n = b.len();
                    let mut d = b.drain(k.min(n)..);
                    pull(&mut d, 0, j);
                    go!(d)
                }
                8 => {
                    let mut it = vals.into_iter();
                    pull(&mut it, k, j);
                    go!(it)
                }
                9 => {
                    let mut v = vals;
                    let n = v.len();
                    let mut d = v.drain(k.min(n)..);
                    pull(&mut d, 0, j);
                    go!(d)
                }
                10 => {
                    let mut v = vals;
                    let r = go!(&mut v);
                    if r.is_ok() && !v.is_empty() {
                        panic!("source `&mut Vec` still holds {} elements after append", v.len());
                    }
                    r
                }
                11 => {
                    let mut v = BumpVec::from_owned_slice_in(vals, &side);
                    let r = go!(&mut v);
                    if r.is_ok() && !v.is_empty() {
                        panic!("source `&mut BumpVec` still holds {} elements after append", v.len());
                    }
                    r
                }
                12 => match <[$E; 3]>::try_from(vals) {
                    Ok(a) => go!(side.alloc(a)),
                    Err(v) => go!(v),
                },
                _ => match <[$E; 3]>::try_from(vals) {
                    Ok(a) => go!(Box::new(a)),
                    Err(v) => go!(v),
                },
            }
        }
        grow_impl!(@exact $exact);
        grow_impl!(@shrink $shrink);
    };
    (@spare fwd, $E:ty) => {
        fn spare_fill(&mut self, vals: Vec<$E>, via_split: bool, expect: &[u32]) -> bool {
            let (len, k) = (self.len(), vals.len());
            let mut ok = true;
            let spare = if via_split {
                let (init, spare) = Self::split_at_spare_mut(self);
                ok = init.iter().map(|e| e.val()).eq(expect.iter().copied());
                spare
            } else {
                Self::spare_capacity_mut(self)
            };
            assert!(spare.len() >= k, "spare capacity smaller than capacity - len");
            for (i, e) in vals.into_iter().enumerate() {
                spare[i].write(e);
            }
            unsafe { Self::set_len(self, len + k) };
            ok
        }
    };
    (@spare rev, $E:ty) => {
        fn spare_fill(&mut self, vals: Vec<$E>, via_split: bool, expect: &[u32]) -> bool {
            let (len, k) = (self.len(), vals.len());
            let mut ok = true;
            let spare = if via_split {
                let (init, spare) = Self::split_at_spare_mut(self);
                ok = init.iter().map(|e| e.val()).eq(expect.iter().copied());
                spare
            } else {
                Self::spare_capacity_mut(self)
            };
            assert!(spare.len() >= k, "spare capacity smaller than capacity - len");
            let base = spare.len() - k;
            for (i, e) in vals.into_iter().enumerate() {
                spare[base + i].write(e);
            }
            unsafe { Self::set_len(self, len + k) };
            ok
        }
    };
    (@spare none, $E:ty) => {
        fn spare_fill(&mut self, _vals: Vec<$E>, _via_split: bool, _expect: &[u32]) -> bool {
            unreachable!("fixed vectors have no spare-capacity view")
        }
    };
    (@reserve_exact yes) => {
        fn reserve_exact(&mut self, n: usize) -> bool {
            Self::reserve_exact(self, n);
            true
        }
    };
    (@reserve_exact no) => {};
    (@shrink_to yes) => {
        fn shrink_to(&mut self, n: usize) -> bool {
            Self::shrink_to(self, n);
            true
        }
    };
    (@shrink_to no) => {};
    (@exact yes) => {
        fn try_reserve_exact(&mut self, n: usize) -> Option<Result<(), AllocError>> {
            Some(Self::try_reserve_exact(self, n))
        }
    };
    (@exact no) => {
        fn try_reserve_exact(&mut self, _n: usize) -> Option<Result<(), AllocError>> {
            None
        }
    };
    (@shrink yes) => {
        fn shrink_to_fit(&mut self) -> bool {
            Self::shrink_to_fit(self);
            true
        }
    };
    (@shrink no) => {};
}

macro_rules! positions_impl {
    () => {
        fn positions(&self) -> Option<Vec<(usize, usize)>> {
            let st = self.allocator_stats();
            Some(st.small_to_big().map(|c| (c.chunk_start().addr().get(), c.bump_position().addr().get())).collect())
        }
        fn allocated(&self) -> Option<usize> {
            Some(self.allocator_stats().allocated())
        }
    };
}

macro_rules! families_for {
    ($E:ty, $cc:tt) => {
        impl<'b> VecCore<$E> for BumpBox<'b, [$E]> {
            core_common!($E, "BumpBox<[T]>");
            fn capacity(&self) -> Option<usize> {
                None
            }
            fn anchor(&self) -> usize {
                self.as_non_null().addr().get()
            }
            fn filter(&mut self) -> Option<&mut dyn VecFilter<$E>> {
                Some(self)
            }
        }
        impl<'b> VecFilter<$E> for BumpBox<'b, [$E]> {
            filter_impl!($E);
        }

        impl<'b> VecCore<$E> for FixedBumpVec<'b, $E> {
            core_common!($E, "FixedBumpVec");
            fn is_fixed(&self) -> bool {
                true
            }
            fn capacity(&self) -> Option<usize> {
                Some(Self::capacity(self))
            }
            fn anchor(&self) -> usize {
                self.as_non_null().addr().get()
            }
            fn filter(&mut self) -> Option<&mut dyn VecFilter<$E>> {
                Some(self)
            }
            fn grow(&mut self) -> Option<&mut dyn VecGrow<$E>> {
                Some(self)
            }
        }
        impl<'b> VecFilter<$E> for FixedBumpVec<'b, $E> {
            filter_impl!($E);
        }
        impl<'b> VecGrow<$E> for FixedBumpVec<'b, $E> {
            grow_impl!($E, $cc, no, no);
            grow_impl!(@spare none, $E);
            grow_impl!(@reserve_exact no);
            grow_impl!(@shrink_to no);
        }

        impl<'b, A, S> VecCore<$E> for BumpVec<$E, &'b BumpScope<'b, A, S>>
        where
            A: MonHandle + BaseAllocator<S::GuaranteedAllocated>,
            S: BumpAllocatorSettings,
        {
            core_common!($E, "BumpVec");
            fn capacity(&self) -> Option<usize> {
                Some(Self::capacity(self))
            }
            fn anchor(&self) -> usize {
                self.as_non_null().addr().get()
            }
            fn filter(&mut self) -> Option<&mut dyn VecFilter<$E>> {
                Some(self)
            }
            fn grow(&mut self) -> Option<&mut dyn VecGrow<$E>> {
                Some(self)
            }
            positions_impl!();
        }
        impl<'b, A, S> VecFilter<$E> for BumpVec<$E, &'b BumpScope<'b, A, S>>
        where
            A: MonHandle + BaseAllocator<S::GuaranteedAllocated>,
            S: BumpAllocatorSettings,
        {
            filter_impl!($E);
        }
        impl<'b, A, S> VecGrow<$E> for BumpVec<$E, &'b BumpScope<'b, A, S>>
        where
            A: MonHandle + BaseAllocator<S::GuaranteedAllocated>,
            S: BumpAllocatorSettings,
        {
            grow_impl!($E, $cc, yes, yes);
            grow_impl!(@spare fwd, $E);
            grow_impl!(@reserve_exact yes);
            grow_impl!(@shrink_to yes);
        }

        impl<'b, A, S> VecCore<$E> for MutBumpVec<$E, &'b mut BumpScope<'b, A, S>>
        where
            A: MonHandle + BaseAllocator<S::GuaranteedAllocated>,
            S: BumpAllocatorSettings,
        {
            core_common!($E, "MutBumpVec");
            fn capacity(&self) -> Option<usize> {
                Some(Self::capacity(self))
            }
            fn anchor(&self) -> usize {
                self.as_non_null().addr().get()
            }
            fn filter(&mut self) -> Option<&mut dyn VecFilter<$E>> {
                Some(self)
            }
            fn grow(&mut self) -> Option<&mut dyn VecGrow<$E>> {
                Some(self)
            }
            positions_impl!();
        }
        impl<'b, A, S> VecFilter<$E> for MutBumpVec<$E, &'b mut BumpScope<'b, A, S>>
        where
            A: MonHandle + BaseAllocator<S::GuaranteedAllocated>,
            S: BumpAllocatorSettings,
        {
            filter_impl!($E);
        }
        impl<'b, A, S> VecGrow<$E> for MutBumpVec<$E, &'b mut BumpScope<'b, A, S>>
        where
            A: MonHandle + BaseAllocator<S::GuaranteedAllocated>,
            S: BumpAllocatorSettings,
        {
            grow_impl!($E, $cc, yes, no);
            grow_impl!(@spare fwd, $E);
            grow_impl!(@reserve_exact yes);
            grow_impl!(@shrink_to no);
        }

        impl<'b, A, S> VecCore<$E> for MutBumpVecRev<$E, &'b mut BumpScope<'b, A, S>>
        where
            A: MonHandle + BaseAllocator<S::GuaranteedAllocated>,
            S: BumpAllocatorSettings,
        {
            core_common!($E, "MutBumpVecRev");
            fn is_rev(&self) -> bool {
                true
            }
            fn capacity(&self) -> Option<usize> {
                Some(Self::capacity(self))
            }
            fn anchor(&self) -> usize {
                self.as_non_null().addr().get() + self.as_slice().len() * size_of::<$E>()
            }
            fn grow(&mut self) -> Option<&mut dyn VecGrow<$E>> {
                Some(self)
            }
            positions_impl!();
        }
        impl<'b, A, S> VecGrow<$E> for MutBumpVecRev<$E, &'b mut BumpScope<'b, A, S>>
        where
            A: MonHandle + BaseAllocator<S::GuaranteedAllocated>,
            S: BumpAllocatorSettings,
        {
            grow_impl!($E, $cc, yes, no);
            grow_impl!(@spare rev, $E);
            grow_impl!(@reserve_exact yes);
            grow_impl!(@shrink_to no);
        }

        // the same two exclusive-borrow vectors over a trait-object allocator
        impl<'r, 'b> VecCore<$E> for MutBumpVec<$E, DynMut<'r, 'b>> {
            core_common!($E, "MutBumpVec(dyn)");
            fn capacity(&self) -> Option<usize> {
                Some(Self::capacity(self))
            }
            fn anchor(&self) -> usize {
                self.as_non_null().addr().get()
            }
            fn filter(&mut self) -> Option<&mut dyn VecFilter<$E>> {
                Some(self)
            }
            fn grow(&mut self) -> Option<&mut dyn VecGrow<$E>> {
                Some(self)
            }
            positions_impl!();
        }
        impl<'r, 'b> VecFilter<$E> for MutBumpVec<$E, DynMut<'r, 'b>> {
            filter_impl!($E);
        }
        impl<'r, 'b> VecGrow<$E> for MutBumpVec<$E, DynMut<'r, 'b>> {
            grow_impl!($E, $cc, yes, no);
            grow_impl!(@spare fwd, $E);
            grow_impl!(@reserve_exact yes);
            grow_impl!(@shrink_to no);
        }
        impl<'r, 'b> VecCore<$E> for MutBumpVecRev<$E, DynMut<'r, 'b>> {
            core_common!($E, "MutBumpVecRev(dyn)");
            fn is_rev(&self) -> bool {
                true
            }
            fn capacity(&self) -> Option<usize> {
                Some(Self::capacity(self))
            }
            fn anchor(&self) -> usize {
                self.as_non_null().addr().get() + self.as_slice().len() * size_of::<$E>()
            }
            fn grow(&mut self) -> Option<&mut dyn VecGrow<$E>> {
                Some(self)
            }
            positions_impl!();
        }
        impl<'r, 'b> VecGrow<$E> for MutBumpVecRev<$E, DynMut<'r, 'b>> {
            grow_impl!($E, $cc, yes, no);
            grow_impl!(@spare rev, $E);
            grow_impl!(@reserve_exact yes);
            grow_impl!(@shrink_to no);
        }
    };
}

/// `&mut dyn MutBumpAllocatorCoreScope`: the trait-object allocator of the exclusive-borrow collections
pub type DynMut<'r, 'b> = &'r mut (dyn bump_scope::traits::MutBumpAllocatorCoreScope<'b> + 'r);

families_for!(u8, copy);
families_for!(u32, copy);
families_for!([u8; 3], copy);
families_for!(u64, copy);
families_for!((), copy);
families_for!(Tr, clone);
families_for!(TrZ, clone);
