//! `VecCore` / `VecFilter` / `VecGrow` for the five vector families, generated per element type.

use super::*;
use crate::monalloc::MonHandle;
use crate::tr::{Tr, TrZ};
use bump_scope::settings::BumpAllocatorSettings;
use bump_scope::{BaseAllocator, BumpBox, BumpScope, BumpVec, FixedBumpVec, MutBumpVec, MutBumpVecRev};

macro_rules! core_common {
    ($E:ty, $name:literal) => {
        fn family(&self) -> &'static str {
            $name
        }
        fn len(&self) -> usize {
            self.as_slice().len()
        }
        fn slice(&self) -> &[$E] {
            self.as_slice()
        }
        fn pop(&mut self) -> Option<$E> {
            Self::pop(self)
        }
        fn remove(&mut self, i: usize) -> $E {
            Self::remove(self, i)
        }
        fn swap_remove(&mut self, i: usize) -> $E {
            Self::swap_remove(self, i)
        }
        fn truncate(&mut self, n: usize) {
            Self::truncate(self, n)
        }
        fn clear(&mut self) {
            Self::clear(self)
        }
    };
}

macro_rules! filter_impl {
    ($E:ty) => {
        fn retain(&mut self, f: &mut dyn FnMut(&mut $E) -> bool) {
            Self::retain(self, |e| f(e))
        }
        fn dedup(&mut self) {
            Self::dedup(self)
        }
        fn dedup_by(&mut self, f: &mut dyn FnMut(&mut $E, &mut $E) -> bool) {
            Self::dedup_by(self, |a, b| f(a, b))
        }
        fn dedup_by_key(&mut self, f: &mut dyn FnMut(&mut $E) -> u32) {
            Self::dedup_by_key(self, |a| f(a))
        }
        fn drain_script(&mut self, range: (Bound<usize>, Bound<usize>), script: &[bool], end: DrainEnd) -> Vec<$E> {
            let mut d = Self::drain(self, range);
            let mut out = Vec::new();
            for &back in script {
                let x = if back { d.next_back() } else { d.next() };
                match x {
                    Some(e) => out.push(e),
                    None => break,
                }
                // the consumer's own code may panic while the iterator is alive
                crate::tr::burn();
            }
            match end {
                DrainEnd::Drop => drop(d),
                DrainEnd::Forget => std::mem::forget(d),
                DrainEnd::KeepRest => d.keep_rest(),
            }
            out
        }
        fn extract_if_script(&mut self, pred: &mut dyn FnMut(&mut $E) -> bool, take: usize) -> Vec<$E> {
            let mut it = Self::extract_if(self, |e| pred(e));
            let mut out = Vec::new();
            for _ in 0..take {
                match it.next() {
                    Some(e) => out.push(e),
                    None => break,
                }
                crate::tr::burn();
            }
            drop(it);
            out
        }
    };
}

macro_rules! copy_or_clone {
    (copy, $self:ident, $s:ident) => {
        Self::extend_from_slice_copy($self, $s)
    };
    (clone, $self:ident, $s:ident) => {
        Self::extend_from_slice_clone($self, $s)
    };
}
macro_rules! within_copy_or_clone {
    (copy, $self:ident, $r:ident) => {
        Self::extend_from_within_copy($self, $r)
    };
    (clone, $self:ident, $r:ident) => {
        Self::extend_from_within_clone($self, $r)
    };
}

macro_rules! grow_impl {
    ($E:ty, $cc:tt, $exact:tt, $shrink:tt) => {
        fn push(&mut self, e: $E) {
            Self::push(self, e)
        }
        fn try_push(&mut self, e: $E) -> Result<(), AllocError> {
            Self::try_push(self, e)
        }
        fn push_with(&mut self, f: &mut dyn FnMut() -> $E) {
            Self::push_with(self, || f())
        }
        fn insert(&mut self, i: usize, e: $E) {
            Self::insert(self, i, e)
        }
        fn try_insert(&mut self, i: usize, e: $E) -> Result<(), AllocError> {
            Self::try_insert(self, i, e)
        }
        fn pop_if(&mut self, f: &mut dyn FnMut(&mut $E) -> bool) -> Option<$E> {
            Self::pop_if(self, |e| f(e))
        }
        fn resize(&mut self, n: usize, e: $E) {
            Self::resize(self, n, e)
        }
        fn try_resize(&mut self, n: usize, e: $E) -> Result<(), AllocError> {
            Self::try_resize(self, n, e)
        }
        fn resize_with(&mut self, n: usize, f: &mut dyn FnMut() -> $E) {
            Self::resize_with(self, n, || f())
        }
        fn extend_from_slice_clone(&mut self, s: &[$E]) {
            Self::extend_from_slice_clone(self, s)
        }
        fn try_extend_from_slice_clone(&mut self, s: &[$E]) -> Result<(), AllocError> {
            Self::try_extend_from_slice_clone(self, s)
        }
        fn extend_from_slice_copy(&mut self, s: &[$E]) {
            copy_or_clone!($cc, self, s)
        }
        fn extend_from_within_clone(&mut self, r: (Bound<usize>, Bound<usize>)) {
            Self::extend_from_within_clone(self, r)
        }
        fn extend_from_within_copy(&mut self, r: (Bound<usize>, Bound<usize>)) {
            within_copy_or_clone!($cc, self, r)
        }
        fn append_vec(&mut self, v: Vec<$E>) {
            Self::append(self, v)
        }
        fn try_append_vec(&mut self, v: Vec<$E>) -> Result<(), AllocError> {
            Self::try_append(self, v)
        }
        fn append_array3(&mut self, v: [$E; 3]) {
            Self::append(self, v)
        }
        fn reserve(&mut self, n: usize) {
            Self::reserve(self, n)
        }
        fn try_reserve(&mut self, n: usize) -> Result<(), AllocError> {
            Self::try_reserve(self, n)
        }
        grow_impl!(@exact $exact);
        grow_impl!(@shrink $shrink);
    };
    (@exact yes) => {
        fn try_reserve_exact(&mut self, n: usize) -> Option<Result<(), AllocError>> {
            Some(Self::try_reserve_exact(self, n))
        }
    };
    (@exact no) => {
        fn try_reserve_exact(&mut self, _n: usize) -> Option<Result<(), AllocError>> {
            None
        }
    };
    (@shrink yes) => {
        fn shrink_to_fit(&mut self) -> bool {
            Self::shrink_to_fit(self);
            true
        }
    };
    (@shrink no) => {};
}

macro_rules! positions_impl {
    () => {
        fn positions(&self) -> Option<Vec<(usize, usize)>> {
            let st = self.allocator_stats();
            Some(st.small_to_big().map(|c| (c.chunk_start().addr().get(), c.bump_position().addr().get())).collect())
        }
        fn allocated(&self) -> Option<usize> {
            Some(self.allocator_stats().allocated())
        }
    };
}

macro_rules! families_for {
    ($E:ty, $cc:tt) => {
        impl<'b> VecCore<$E> for BumpBox<'b, [$E]> {
            core_common!($E, "BumpBox<[T]>");
            fn capacity(&self) -> Option<usize> {
                None
            }
            fn anchor(&self) -> usize {
                self.as_non_null().addr().get()
            }
            fn filter(&mut self) -> Option<&mut dyn VecFilter<$E>> {
                Some(self)
            }
        }
        impl<'b> VecFilter<$E> for BumpBox<'b, [$E]> {
            filter_impl!($E);
        }

        impl<'b> VecCore<$E> for FixedBumpVec<'b, $E> {
            core_common!($E, "FixedBumpVec");
            fn is_fixed(&self) -> bool {
                true
            }
            fn capacity(&self) -> Option<usize> {
                Some(Self::capacity(self))
            }
            fn anchor(&self) -> usize {
                self.as_non_null().addr().get()
            }
            fn filter(&mut self) -> Option<&mut dyn VecFilter<$E>> {
                Some(self)
            }
            fn grow(&mut self) -> Option<&mut dyn VecGrow<$E>> {
                Some(self)
            }
        }
        impl<'b> VecFilter<$E> for FixedBumpVec<'b, $E> {
            filter_impl!($E);
        }
        impl<'b> VecGrow<$E> for FixedBumpVec<'b, $E> {
            grow_impl!($E, $cc, no, no);
        }

        impl<'b, A, S> VecCore<$E> for BumpVec<$E, &'b BumpScope<'b, A, S>>
        where
            A: MonHandle + BaseAllocator<S::GuaranteedAllocated>,
            S: BumpAllocatorSettings,
        {
            core_common!($E, "BumpVec");
            fn capacity(&self) -> Option<usize> {
                Some(Self::capacity(self))
            }
            fn anchor(&self) -> usize {
                self.as_non_null().addr().get()
            }
            fn filter(&mut self) -> Option<&mut dyn VecFilter<$E>> {
                Some(self)
            }
            fn grow(&mut self) -> Option<&mut dyn VecGrow<$E>> {
                Some(self)
            }
            positions_impl!();
        }
        impl<'b, A, S> VecFilter<$E> for BumpVec<$E, &'b BumpScope<'b, A, S>>
        where
            A: MonHandle + BaseAllocator<S::GuaranteedAllocated>,
            S: BumpAllocatorSettings,
        {
            filter_impl!($E);
        }
        impl<'b, A, S> VecGrow<$E> for BumpVec<$E, &'b BumpScope<'b, A, S>>
        where
            A: MonHandle + BaseAllocator<S::GuaranteedAllocated>,
            S: BumpAllocatorSettings,
        {
            grow_impl!($E, $cc, yes, yes);
        }

        impl<'b, A, S> VecCore<$E> for MutBumpVec<$E, &'b mut BumpScope<'b, A, S>>
        where
            A: MonHandle + BaseAllocator<S::GuaranteedAllocated>,
            S: BumpAllocatorSettings,
        {
            core_common!($E, "MutBumpVec");
            fn capacity(&self) -> Option<usize> {
                Some(Self::capacity(self))
            }
            fn anchor(&self) -> usize {
                self.as_non_null().addr().get()
            }
            fn filter(&mut self) -> Option<&mut dyn VecFilter<$E>> {
                Some(self)
            }
            fn grow(&mut self) -> Option<&mut dyn VecGrow<$E>> {
                Some(self)
            }
            positions_impl!();
        }
        impl<'b, A, S> VecFilter<$E> for MutBumpVec<$E, &'b mut BumpScope<'b, A, S>>
        where
            A: MonHandle + BaseAllocator<S::GuaranteedAllocated>,
            S: BumpAllocatorSettings,
        {
            filter_impl!($E);
        }
        impl<'b, A, S> VecGrow<$E> for MutBumpVec<$E, &'b mut BumpScope<'b, A, S>>
        where
            A: MonHandle + BaseAllocator<S::GuaranteedAllocated>,
            S: BumpAllocatorSettings,
        {
            grow_impl!($E, $cc, yes, no);
        }

        impl<'b, A, S> VecCore<$E> for MutBumpVecRev<$E, &'b mut BumpScope<'b, A, S>>
        where
            A: MonHandle + BaseAllocator<S::GuaranteedAllocated>,
            S: BumpAllocatorSettings,
        {
            core_common!($E, "MutBumpVecRev");
            fn is_rev(&self) -> bool {
                true
            }
            fn capacity(&self) -> Option<usize> {
                Some(Self::capacity(self))
            }
            fn anchor(&self) -> usize {
                self.as_non_null().addr().get() + self.as_slice().len() * size_of::<$E>()
            }
            fn grow(&mut self) -> Option<&mut dyn VecGrow<$E>> {
                Some(self)
            }
            positions_impl!();
        }
        impl<'b, A, S> VecGrow<$E> for MutBumpVecRev<$E, &'b mut BumpScope<'b, A, S>>
        where
            A: MonHandle + BaseAllocator<S::GuaranteedAllocated>,
            S: BumpAllocatorSettings,
        {
            grow_impl!($E, $cc, yes, no);
        }
    };
}

families_for!(u8, copy);
families_for!(u32, copy);
families_for!([u8; 3], copy);
families_for!(u64, copy);
families_for!((), copy);
families_for!(Tr, clone);
families_for!(TrZ, clone);
