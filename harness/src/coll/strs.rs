//! C09: string types against a `String` model (see `run_str_history`).
