//! C09: string types against a `String` model, UTF-8 validity of the raw bytes after every step
//! (also after panics), C-string constructors, UTF-8/UTF-16 decoding, formatting.

use super::hist::CollParams;
use super::vecs::VCtx;
use crate::arena::{PanicKind, classify, guarded};
use crate::monalloc::{FailPlan, MonHandle, MonState, Policy, Shared, set_current};
use crate::out::Report;
use crate::rng::{Rng, hash_str, mix};
use crate::tr;
use bump_scope::alloc::AllocError;
use bump_scope::settings::BumpAllocatorSettings;
use bump_scope::{BaseAllocator, Bump, BumpBox, BumpScope, BumpString, BumpVec, FixedBumpString, MutBumpString};
use std::cell::RefCell;
use std::collections::BTreeSet;
use std::fmt::Write as _;
use std::ops::Bound;
use std::rc::Rc;

pub trait StrLike {
    fn family(&self) -> &'static str;
    fn is_fixed(&self) -> bool {
        false
    }
    fn raw(&self) -> (std::ptr::NonNull<u8>, usize); // pointer, len
    fn as_str(&self) -> &str;
    fn capacity(&self) -> usize;
    fn pop(&mut self) -> Option<char>;
    fn remove(&mut self, i: usize) -> char;
    fn truncate(&mut self, n: usize);
    fn clear(&mut self);
    fn retain(&mut self, f: &mut dyn FnMut(char) -> bool);
    fn drain_script(&mut self, r: (Bound<usize>, Bound<usize>), script: &[bool], forget: bool) -> String;
    fn grow(&mut self) -> Option<&mut dyn StrGrow> {
        None
    }
}

pub trait StrGrow {
    fn push(&mut self, c: char);
    fn try_push(&mut self, c: char) -> Result<(), AllocError>;
    fn push_str(&mut self, s: &str);
    fn try_push_str(&mut self, s: &str) -> Result<(), AllocError>;
    fn insert(&mut self, i: usize, c: char);
    fn try_insert(&mut self, i: usize, c: char) -> Result<(), AllocError>;
    fn insert_str(&mut self, i: usize, s: &str);
    fn try_insert_str(&mut self, i: usize, s: &str) -> Result<(), AllocError>;
    fn replace_range(&mut self, r: (Bound<usize>, Bound<usize>), s: &str);
    fn try_replace_range(&mut self, r: (Bound<usize>, Bound<usize>), s: &str) -> Result<(), AllocError>;
    fn extend_from_within(&mut self, r: (Bound<usize>, Bound<usize>));
    fn try_extend_from_within(&mut self, r: (Bound<usize>, Bound<usize>)) -> Result<(), AllocError>;
    fn write_fmt3(&mut self, a: &dyn std::fmt::Display, b: u64, c: &str) -> std::fmt::Result;
    fn reserve(&mut self, n: usize);
    fn try_reserve(&mut self, n: usize) -> Result<(), AllocError>;
    /// `None`: the family has no such method
    fn reserve_exact(&mut self, _n: usize, _try_: bool) -> Option<Result<(), AllocError>> {
        None
    }
    /// `shrink_to_fit` (`n` = None) or `shrink_to(n)`; false: the family has no such method
    fn shrink(&mut self, _n: Option<usize>) -> bool {
        false
    }
    fn extend_zeroed(&mut self, n: usize);
    fn try_extend_zeroed(&mut self, n: usize) -> Result<(), AllocError>;
    fn extend_chars(&mut self, cs: &[char], by_ref: bool);
    fn extend_strs(&mut self, ss: &[String]);
    fn write_char(&mut self, c: char) -> std::fmt::Result;
    fn add_assign(&mut self, s: &str);
}

macro_rules! str_core {
    ($name:literal) => {
        fn family(&self) -> &'static str {
            $name
        }
        fn raw(&self) -> (std::ptr::NonNull<u8>, usize) {
            (self.as_non_null(), self.len())
        }
        fn pop(&mut self) -> Option<char> {
            Self::pop(self)
        }
        fn remove(&mut self, i: usize) -> char {
            Self::remove(self, i)
        }
        fn truncate(&mut self, n: usize) {
            Self::truncate(self, n)
        }
        fn clear(&mut self) {
            Self::clear(self)
        }
        fn retain(&mut self, f: &mut dyn FnMut(char) -> bool) {
            Self::retain(self, |c| f(c))
        }
        fn drain_script(&mut self, r: (Bound<usize>, Bound<usize>), script: &[bool], forget: bool) -> String {
            let mut d = Self::drain(self, r);
            let mut out = String::new();
            let mut back = String::new();
            for &b in script {
                let x = if b { d.next_back() } else { d.next() };
                match x {
                    Some(c) if b => back.insert(0, c),
                    Some(c) => out.push(c),
                    None => break,
                }
            }
            // what is left in the iterator, seen through `as_str`, and (every other script) consumed through `last`
            let rest = d.as_str().to_string();
            let mut tail = String::new();
            if forget {
                std::mem::forget(d);
            } else if script.len() % 2 == 0 {
                tail.push('^');
                tail.extend(d.last());
            } else {
                drop(d);
            }
            out.push('|');
            out.push_str(&back);
            out.push('#');
            out.push_str(&rest);
            out.push_str(&tail);
            out
        }
    };
}

macro_rules! str_grow {
    () => {
        fn push(&mut self, c: char) {
            Self::push(self, c)
        }
        fn try_push(&mut self, c: char) -> Result<(), AllocError> {
            Self::try_push(self, c)
        }
        fn push_str(&mut self, s: &str) {
            Self::push_str(self, s)
        }
        fn try_push_str(&mut self, s: &str) -> Result<(), AllocError> {
            Self::try_push_str(self, s)
        }
        fn insert(&mut self, i: usize, c: char) {
            Self::insert(self, i, c)
        }
        fn try_insert(&mut self, i: usize, c: char) -> Result<(), AllocError> {
            Self::try_insert(self, i, c)
        }
        fn insert_str(&mut self, i: usize, s: &str) {
            Self::insert_str(self, i, s)
        }
        fn try_insert_str(&mut self, i: usize, s: &str) -> Result<(), AllocError> {
            Self::try_insert_str(self, i, s)
        }
        fn replace_range(&mut self, r: (Bound<usize>, Bound<usize>), s: &str) {
            Self::replace_range(self, r, s)
        }
        fn try_replace_range(&mut self, r: (Bound<usize>, Bound<usize>), s: &str) -> Result<(), AllocError> {
            Self::try_replace_range(self, r, s)
        }
        fn extend_from_within(&mut self, r: (Bound<usize>, Bound<usize>)) {
            Self::extend_from_within(self, r)
        }
        fn try_extend_from_within(&mut self, r: (Bound<usize>, Bound<usize>)) -> Result<(), AllocError> {
            Self::try_extend_from_within(self, r)
        }
        fn write_fmt3(&mut self, a: &dyn std::fmt::Display, b: u64, c: &str) -> std::fmt::Result {
            write!(self, "{a}<{b}>{c}")
        }
        fn reserve(&mut self, n: usize) {
            Self::reserve(self, n)
        }
        fn try_reserve(&mut self, n: usize) -> Result<(), AllocError> {
            Self::try_reserve(self, n)
        }
        fn extend_zeroed(&mut self, n: usize) {
            Self::extend_zeroed(self, n)
        }
        fn try_extend_zeroed(&mut self, n: usize) -> Result<(), AllocError> {
            Self::try_extend_zeroed(self, n)
        }
        fn extend_chars(&mut self, cs: &[char], by_ref: bool) {
            if by_ref {
                Extend::<&char>::extend(self, cs.iter())
            } else {
                Extend::<char>::extend(self, cs.iter().copied())
            }
        }
        fn extend_strs(&mut self, ss: &[String]) {
            Extend::<&str>::extend(self, ss.iter().map(|s| s.as_str()))
        }
        fn write_char(&mut self, c: char) -> std::fmt::Result {
            std::fmt::Write::write_char(self, c)
        }
        fn add_assign(&mut self, s: &str) {
            *self += s;
        }
    };
    (@exact) => {
        fn reserve_exact(&mut self, n: usize, try_: bool) -> Option<Result<(), AllocError>> {
            Some(if try_ {
                Self::try_reserve_exact(self, n)
            } else {
                Self::reserve_exact(self, n);
                Ok(())
            })
        }
    };
    (@shrink) => {
        fn shrink(&mut self, n: Option<usize>) -> bool {
            match n {
                None => Self::shrink_to_fit(self),
                Some(n) => Self::shrink_to(self, n),
            }
            true
        }
    };
}

impl<'b> StrLike for BumpBox<'b, str> {
    str_core!("BumpBox<str>");
    fn as_str(&self) -> &str {
        self
    }
    fn capacity(&self) -> usize {
        self.len()
    }
}
impl<'b> StrLike for FixedBumpString<'b> {
    str_core!("FixedBumpString");
    fn is_fixed(&self) -> bool {
        true
    }
    fn as_str(&self) -> &str {
        Self::as_str(self)
    }
    fn capacity(&self) -> usize {
        Self::capacity(self)
    }
    fn grow(&mut self) -> Option<&mut dyn StrGrow> {
        Some(self)
    }
}
impl<'b> StrGrow for FixedBumpString<'b> {
    str_grow!();
}
impl<'b, A, S> StrLike for BumpString<&'b BumpScope<'b, A, S>>
where
    A: MonHandle + BaseAllocator<S::GuaranteedAllocated>,
    S: BumpAllocatorSettings,
{
    str_core!("BumpString");
    fn as_str(&self) -> &str {
        Self::as_str(self)
    }
    fn capacity(&self) -> usize {
        Self::capacity(self)
    }
    fn grow(&mut self) -> Option<&mut dyn StrGrow> {
        Some(self)
    }
}
impl<'b, A, S> StrGrow for BumpString<&'b BumpScope<'b, A, S>>
where
    A: MonHandle + BaseAllocator<S::GuaranteedAllocated>,
    S: BumpAllocatorSettings,
{
    str_grow!();
    str_grow!(@exact);
    str_grow!(@shrink);
}
impl<'b, A, S> StrLike for MutBumpString<&'b mut BumpScope<'b, A, S>>
where
    A: MonHandle + BaseAllocator<S::GuaranteedAllocated>,
    S: BumpAllocatorSettings,
{
    str_core!("MutBumpString");
    fn as_str(&self) -> &str {
        Self::as_str(self)
    }
    fn capacity(&self) -> usize {
        Self::capacity(self)
    }
    fn grow(&mut self) -> Option<&mut dyn StrGrow> {
        Some(self)
    }
}
impl<'b, A, S> StrGrow for MutBumpString<&'b mut BumpScope<'b, A, S>>
where
    A: MonHandle + BaseAllocator<S::GuaranteedAllocated>,
    S: BumpAllocatorSettings,
{
    str_grow!();
    str_grow!(@exact);
}

pub const ALPHABET: [&str; 9] = ["a", "z", "\0", "é", "ß", "€", "한", "😀", "\u{301}"];

fn text(rng: &mut Rng, max_chars: usize) -> String {
    let n = rng.range(0, max_chars);
    (0..n).map(|_| ALPHABET[rng.below(ALPHABET.len())]).collect()
}

fn gen_idx(rng: &mut Rng, len: usize) -> usize {
    match rng.below(12) {
        0 => usize::MAX,
        1 => len + 1,
        2 => len,
        3 => 0,
        _ => rng.range(0, len + 1),
    }
}

fn gen_range(rng: &mut Rng, len: usize) -> (Bound<usize>, Bound<usize>) {
    let a = gen_idx(rng, len);
    let b = gen_idx(rng, len);
    let (a, b) = if a > b && rng.chance(5, 6) { (b, a) } else { (a, b) };
    let lo = match rng.below(5) {
        0 => Bound::Unbounded,
        1 if a > 0 => Bound::Excluded(a - 1),
        _ => Bound::Included(a),
    };
    let hi = match rng.below(5) {
        0 => Bound::Unbounded,
        1 => Bound::Included(b),
        _ => Bound::Excluded(b),
    };
    (lo, hi)
}

struct FailingDisplay(u8, String);
impl std::fmt::Display for FailingDisplay {
    fn fmt(&self, f: &mut std::fmt::Formatter<'_>) -> std::fmt::Result {
        f.write_str(&self.1)?;
        match self.0 {
            0 => Ok(()),
            1 => Err(std::fmt::Error),
            _ => {
                tr::burn();
                f.write_str("€")
            }
        }
    }
}

fn model_do<R>(f: impl FnOnce() -> R) -> Result<R, ()> {
    std::panic::catch_unwind(std::panic::AssertUnwindSafe(f)).map_err(|_| ())
}

enum Real {
    Ok(String),
    Err,
    Injected,
    AllocPanic,
    Panic(String),
}
fn real_do(f: impl FnOnce() -> Result<String, AllocError>) -> Real {
    match guarded(f) {
        Ok(Ok(v)) => Real::Ok(v),
        Ok(Err(_)) => Real::Err,
        Err(p) => match classify(&p) {
            PanicKind::Fuel => Real::Injected,
            PanicKind::AllocError => Real::AllocPanic,
            PanicKind::Msg(m) => Real::Panic(m),
            PanicKind::Injected => Real::Panic("?".into()),
        },
    }
}

fn is_boundary_arg(model: &str, i: usize) -> bool {
    model.is_char_boundary(i)
}

/// One generated string operation.
pub fn step(v: &mut dyn StrLike, model: &mut String, ctx: &mut VCtx) {
    let len = model.len();
    let has_grow = v.grow().is_some();
    let fixed = v.is_fixed();
    let cap0 = v.capacity();
    let mut w = [0u32; 27];
    w[..6].copy_from_slice(&[6, 8, 6, 2, 5, 8]);
    if has_grow {
        for (i, x) in [(6, 8), (7, 3), (8, 8), (9, 3), (10, 8), (11, 3), (12, 8), (13, 3), (14, 8), (15, 3), (16, 5), (17, 3), (18, 3)] {
            w[i] = x;
        }
        for (i, x) in [(19, 3), (20, 2), (21, 2), (22, 3), (23, 3), (24, 3), (25, 2), (26, 2)] {
            w[i] = x;
        }
    }
    let op = ctx.rng.weighted(&w);
    let mut added = 0usize;
    let mut idx_arg: Option<usize> = None;
    let mut reserve_n: Option<usize> = None;
    let mut partial_ok: Option<String> = None;
    let mut is_try2 = false;
    let before = model.clone();
    let (real, modl): (Real, Result<String, ()>) = match op {
        0 => {
            ctx.begin("pop".into());
            (real_do(|| Ok(v.pop().map(String::from).unwrap_or_default())), model_do(|| model.pop().map(String::from).unwrap_or_default()))
        }
        1 => {
            let i = gen_idx(&mut ctx.rng, len);
            idx_arg = Some(i);
            ctx.begin(format!("remove {i}"));
            (real_do(|| Ok(String::from(v.remove(i)))), model_do(|| String::from(model.remove(i))))
        }
        2 => {
            let i = gen_idx(&mut ctx.rng, len);
            idx_arg = Some(i);
            ctx.begin(format!("truncate {i}"));
            (
                real_do(|| {
                    v.truncate(i);
                    Ok(String::new())
                }),
                model_do(|| {
                    model.truncate(i);
                    String::new()
                }),
            )
        }
        3 => {
            ctx.begin("clear".into());
            (
                real_do(|| {
                    v.clear();
                    Ok(String::new())
                }),
                model_do(|| {
                    model.clear();
                    String::new()
                }),
            )
        }
        4 => {
            let drop_c = ALPHABET[ctx.rng.below(ALPHABET.len())].chars().next().unwrap();
            let fuel = if ctx.rng.chance(1, 4) { Some(ctx.rng.range(0, model.chars().count() + 1) as u64) } else { None };
            ctx.begin(format!("retain != {drop_c:?}{}", if fuel.is_some() { " (predicate panics part-way)" } else { "" }));
            tr::set_fuel(fuel);
            let r = real_do(|| {
                v.retain(&mut |c| {
                    tr::burn();
                    c != drop_c
                });
                Ok(String::new())
            });
            tr::set_fuel(None);
            (
                r,
                model_do(|| {
                    model.retain(|c| c != drop_c);
                    String::new()
                }),
            )
        }
        5 => {
            let r = gen_range(&mut ctx.rng, len);
            let n = ctx.rng.range(0, 6);
            let script: Vec<bool> = (0..n).map(|_| ctx.rng.chance(1, 3)).collect();
            ctx.begin(format!("drain {r:?} pulling {n}"));
            let s2 = script.clone();
            (
                real_do(|| Ok(v.drain_script(r, &s2, false))),
                model_do(|| {
                    let mut d = model.drain(r);
                    let mut out = String::new();
                    let mut back = String::new();
                    for &b in &script {
                        let x = if b { d.next_back() } else { d.next() };
                        match x {
                            Some(c) if b => back.insert(0, c),
                            Some(c) => out.push(c),
                            None => break,
                        }
                    }
                    let rest = d.as_str().to_string();
                    let mut tail = String::new();
                    if script.len() % 2 == 0 {
                        tail.push('^');
                        tail.extend(d.last());
                    } else {
                        drop(d);
                    }
                    out.push('|');
                    out.push_str(&back);
                    out.push('#');
                    out.push_str(&rest);
                    out.push_str(&tail);
                    out
                }),
            )
        }
        6 | 7 => {
            let c = ALPHABET[ctx.rng.below(ALPHABET.len())].chars().next().unwrap();
            added = c.len_utf8();
            ctx.begin(format!("{} {c:?}", if op == 6 { "push" } else { "try_push" }));
            let g = v.grow().unwrap();
            (
                real_do(|| {
                    if op == 6 {
                        g.push(c);
                        Ok(String::new())
                    } else {
                        g.try_push(c).map(|_| String::new())
                    }
                }),
                model_do(|| {
                    model.push(c);
                    String::new()
                }),
            )
        }
        8 | 9 => {
            let s = text(&mut ctx.rng, 12);
            added = s.len();
            ctx.begin(format!("{} {s:?}", if op == 8 { "push_str" } else { "try_push_str" }));
            let g = v.grow().unwrap();
            (
                real_do(|| {
                    if op == 8 {
                        g.push_str(&s);
                        Ok(String::new())
                    } else {
                        g.try_push_str(&s).map(|_| String::new())
                    }
                }),
                model_do(|| {
                    model.push_str(&s);
                    String::new()
                }),
            )
        }
        10 | 11 => {
            let c = ALPHABET[ctx.rng.below(ALPHABET.len())].chars().next().unwrap();
            let i = gen_idx(&mut ctx.rng, len);
            idx_arg = Some(i);
            added = c.len_utf8();
            ctx.begin(format!("{} {i} {c:?}", if op == 10 { "insert" } else { "try_insert" }));
            let g = v.grow().unwrap();
            (
                real_do(|| {
                    if op == 10 {
                        g.insert(i, c);
                        Ok(String::new())
                    } else {
                        g.try_insert(i, c).map(|_| String::new())
                    }
                }),
                model_do(|| {
                    model.insert(i, c);
                    String::new()
                }),
            )
        }
        12 | 13 => {
            let s = text(&mut ctx.rng, 8);
            let i = gen_idx(&mut ctx.rng, len);
            idx_arg = Some(i);
            added = s.len();
            ctx.begin(format!("{} {i} {s:?}", if op == 12 { "insert_str" } else { "try_insert_str" }));
            let g = v.grow().unwrap();
            (
                real_do(|| {
                    if op == 12 {
                        g.insert_str(i, &s);
                        Ok(String::new())
                    } else {
                        g.try_insert_str(i, &s).map(|_| String::new())
                    }
                }),
                model_do(|| {
                    model.insert_str(i, &s);
                    String::new()
                }),
            )
        }
        14 | 15 => {
            let s = text(&mut ctx.rng, 8);
            let r = gen_range(&mut ctx.rng, len);
            added = s.len();
            ctx.begin(format!("{} {r:?} {s:?}", if op == 14 { "replace_range" } else { "try_replace_range" }));
            let g = v.grow().unwrap();
            (
                real_do(|| {
                    if op == 14 {
                        g.replace_range(r, &s);
                        Ok(String::new())
                    } else {
                        g.try_replace_range(r, &s).map(|_| String::new())
                    }
                }),
                model_do(|| {
                    model.replace_range(r, &s);
                    String::new()
                }),
            )
        }
        16 | 17 => {
            let r = gen_range(&mut ctx.rng, len);
            added = model_do(|| std::slice::range(r, ..len).len()).unwrap_or(0);
            ctx.begin(format!("{} {r:?}", if op == 16 { "extend_from_within" } else { "try_extend_from_within" }));
            let g = v.grow().unwrap();
            (
                real_do(|| {
                    if op == 16 {
                        g.extend_from_within(r);
                        Ok(String::new())
                    } else {
                        g.try_extend_from_within(r).map(|_| String::new())
                    }
                }),
                model_do(|| {
                    model.extend_from_within(r);
                    String::new()
                }),
            )
        }
        19 | 20 => {
            let n = match ctx.rng.below(5) {
                0 => 0,
                1 | 2 => ctx.rng.range(1, 40),
                3 => ctx.rng.range(40, 600),
                _ => usize::MAX - ctx.rng.range(0, 3),
            };
            let try_ = ctx.rng.bool();
            is_try2 = try_;
            reserve_n = Some(n);
            ctx.begin(format!("{}reserve{} {n}", if try_ { "try_" } else { "" }, if op == 20 { "_exact" } else { "" }));
            let g = v.grow().unwrap();
            (
                real_do(|| {
                    let exact = if op == 20 { g.reserve_exact(n, try_) } else { None };
                    match exact {
                        Some(r) => r.map(|_| String::new()),
                        None if try_ => g.try_reserve(n).map(|_| String::new()),
                        None => {
                            g.reserve(n);
                            Ok(String::new())
                        }
                    }
                }),
                // std panics with "capacity overflow" for anything above isize::MAX and would really allocate otherwise
                if len.checked_add(n).map_or(true, |t| t > isize::MAX as usize) { Err(()) } else { Ok(String::new()) },
            )
        }
        21 => {
            let n = if ctx.rng.bool() { None } else { Some(ctx.rng.range(0, cap0.min(len + 100) + 2)) };
            ctx.begin(match n {
                None => "shrink_to_fit".into(),
                Some(n) => format!("shrink_to {n}"),
            });
            let g = v.grow().unwrap();
            let r = real_do(|| {
                g.shrink(n);
                Ok(String::new())
            });
            if let (Real::Ok(_), Some(n)) = (&r, n) {
                let c = v.capacity();
                if c < n.min(cap0) || c < len {
                    ctx.viol("C09", format!("shrink_to_went_below_floor:{}", v.family()), format!("shrink_to {n}: capacity {cap0} -> {c} (len {len})"));
                }
            }
            (r, Ok(String::new()))
        }
        22 => {
            let n = ctx.rng.range(0, 10);
            let try_ = ctx.rng.bool();
            is_try2 = try_;
            added = n;
            ctx.begin(format!("{}extend_zeroed {n}", if try_ { "try_" } else { "" }));
            let g = v.grow().unwrap();
            (
                real_do(|| {
                    if try_ {
                        g.try_extend_zeroed(n).map(|_| String::new())
                    } else {
                        g.extend_zeroed(n);
                        Ok(String::new())
                    }
                }),
                model_do(|| {
                    model.extend(std::iter::repeat('\0').take(n));
                    String::new()
                }),
            )
        }
        23 | 24 => {
            let n = ctx.rng.range(0, 8);
            let pieces: Vec<String> = (0..n).map(|_| if op == 23 { ALPHABET[ctx.rng.below(ALPHABET.len())].to_string() } else { text(&mut ctx.rng, 3) }).collect();
            let all: String = pieces.concat();
            added = all.len();
            partial_ok = Some(all.clone());
            let by_ref = ctx.rng.bool();
            ctx.begin(format!("Extend<{}> {pieces:?}", if op == 24 { "&str" } else if by_ref { "&char" } else { "char" }));
            let g = v.grow().unwrap();
            (
                real_do(|| {
                    if op == 23 {
                        let cs: Vec<char> = pieces.iter().map(|p| p.chars().next().unwrap()).collect();
                        g.extend_chars(&cs, by_ref);
                    } else {
                        g.extend_strs(&pieces);
                    }
                    Ok(String::new())
                }),
                model_do(|| {
                    model.push_str(&all);
                    String::new()
                }),
            )
        }
        25 => {
            let c = ALPHABET[ctx.rng.below(ALPHABET.len())].chars().next().unwrap();
            added = c.len_utf8();
            ctx.begin(format!("write_char {c:?}"));
            let g = v.grow().unwrap();
            (
                real_do(|| Ok(format!("{:?}", g.write_char(c).is_ok()))),
                model_do(|| {
                    model.push(c);
                    "true".to_string()
                }),
            )
        }
        26 => {
            let s = text(&mut ctx.rng, 8);
            added = s.len();
            ctx.begin(format!("+= {s:?}"));
            let g = v.grow().unwrap();
            (
                real_do(|| {
                    g.add_assign(&s);
                    Ok(String::new())
                }),
                model_do(|| {
                    *model += &s;
                    String::new()
                }),
            )
        }
        _ => {
            let kind = ctx.rng.below(3) as u8;
            let t = text(&mut ctx.rng, 5);
            let tail = text(&mut ctx.rng, 4);
            let num = ctx.rng.next() % 100000;
            added = t.len() + tail.len() + 12;
            ctx.begin(format!("write!(.., FailingDisplay({kind}), {num}, {tail:?})"));
            let d = FailingDisplay(kind.min(1), t.clone());
            let g = v.grow().unwrap();
            (
                real_do(|| Ok(format!("{:?}", g.write_fmt3(&d, num, &tail).is_ok()))),
                model_do(|| {
                    let d = FailingDisplay(kind.min(1), t.clone());
                    format!("{:?}", write!(model, "{d}<{num}>{tail}").is_ok())
                }),
            )
        }
    };
    if let Some(i) = idx_arg {
        if i <= len && !is_boundary_arg(&before, i) {
            ctx.ev("nonboundary_index");
        }
    }
    let refused = ctx.refused();
    // the model has already been advanced: a fixed string is full when the result would not fit
    let _ = added;
    let full = fixed && modl.is_ok() && (model.len() > cap0 || reserve_n.map_or(false, |n| len.saturating_add(n) > cap0));
    let is_try = matches!(op, 7 | 9 | 11 | 13 | 15 | 17) || is_try2;
    let is_fmt = op == 18 || op == 25;
    let huge = reserve_n.map_or(false, |n| n > isize::MAX as usize / 2);
    let mut resync = false;
    match (real, modl) {
        (Real::Injected, _) => {
            ctx.ev("panic_injected");
            resync = true;
        }
        (Real::Ok(r), Ok(m)) => {
            if refused && is_fmt {
                // fmt::Write can only report a formatting error; what was written before stays
                if r != "false" {
                    let tail: Vec<String> = ctx.mon.as_ref().unwrap().borrow().log.iter().rev().take(4).map(|e| format!("{e:?}")).collect();
                    ctx.viol("C07", format!("ok_after_refusal:{}", v.family()), format!("{} :: {}", ctx.desc, tail.join(" | ")));
                }
                resync = true;
            } else if full && is_fmt {
                // a full fixed string reports a formatting error and keeps what fitted
                if r != "false" {
                    ctx.viol("C09", "fixed_string_accepted_more_than_capacity".into(), format!("write! {len}+.. > {cap0}"));
                }
                resync = true;
            } else if r != m {
                ctx.viol("C09", format!("returned_value_differs:{}:{}", v.family(), opname(&ctx.desc)), format!("real {r:?} model {m:?}"));
            }
            if full && !is_fmt {
                ctx.viol("C09", "fixed_string_accepted_more_than_capacity".into(), format!("{len}+{added} > {cap0}"));
            }
            if let (Some(n), false) = (reserve_n, fixed) {
                if v.capacity() < len.saturating_add(n) {
                    ctx.viol("C09", format!("reserve_promise_not_kept:{}", v.family()), format!("len {len} + {n} > capacity {}", v.capacity()));
                }
            }
            if refused && added > 0 && !is_fmt {
                ctx.viol("C07", format!("ok_after_refusal:{}", v.family()), ctx.desc.clone());
            }
        }
        (Real::Ok(r), Err(())) => {
            ctx.viol("C09", format!("no_panic_where_std_panics:{}:{}", v.family(), opname(&ctx.desc)), format!("returned {r:?}; string was {before:?}"));
            resync = true;
        }
        (Real::Panic(_), Err(())) => ctx.ev("str_panic_matched"),
        (Real::Panic(msg), Ok(_)) => {
            if full && (msg.contains("fixed size") || msg.contains("does not have space")) {
                ctx.rep.count("fixed_full_rejected");
            } else if is_try {
                ctx.viol("C07", format!("try_method_panicked:{}:{}", v.family(), opname(&ctx.desc)), msg);
            } else {
                ctx.viol("C09", format!("panic_where_std_does_not:{}:{}", v.family(), opname(&ctx.desc)), format!("{msg}; string was {before:?}"));
            }
            resync = true;
        }
        (Real::Err, _) => {
            if !(full || refused || huge) {
                ctx.viol("C07", format!("try_method_failed_without_cause:{}:{}", v.family(), opname(&ctx.desc)), ctx.desc.clone());
            }
            if v.as_str() != before {
                ctx.viol("C07", format!("failed_operation_changed_collection:{}:{}", v.family(), opname(&ctx.desc)), format!("before {before:?} after {:?}", v.as_str()));
            }
            resync = true;
        }
        (Real::AllocPanic, _) => {
            if is_try {
                ctx.viol("C07", format!("try_method_panicked:{}:{}", v.family(), opname(&ctx.desc)), "allocation-error panic".into());
            }
            let partial = partial_ok.as_ref().map_or(false, |all| v.as_str().starts_with(before.as_str()) && all.starts_with(&v.as_str()[before.len()..]));
            if v.as_str() != before && !is_fmt && !partial {
                ctx.viol("C07", format!("failed_operation_changed_collection:{}:{}", v.family(), opname(&ctx.desc)), format!("before {before:?} after {:?}", v.as_str()));
            }
            resync = true;
        }
    }
    // the raw bytes are valid UTF-8, whatever happened
    let (addr, n) = v.raw();
    let bytes = unsafe { std::slice::from_raw_parts(addr.as_ptr() as *const u8, n) };
    if std::str::from_utf8(bytes).is_err() {
        ctx.viol("C09", format!("invalid_utf8_contents:{}:{}", v.family(), opname(&ctx.desc)), format!("bytes {:x?} after {}", &bytes[..n.min(32)], ctx.desc));
        // nothing more can be trusted
        *model = String::from_utf8_lossy(bytes).into_owned();
        return;
    }
    if resync {
        *model = v.as_str().to_string();
    } else if v.as_str() != model.as_str() {
        ctx.viol("C09", format!("contents_differ:{}:{}", v.family(), opname(&ctx.desc)), format!("real {:?} model {:?}", v.as_str(), model));
        *model = v.as_str().to_string();
    }
    if v.capacity() < n {
        ctx.viol("C09", format!("capacity_below_len:{}", v.family()), format!("{} < {n}", v.capacity()));
    }
}

fn opname(desc: &str) -> String {
    desc.split(|c: char| c == ' ' || c == '(').next().unwrap_or("?").to_string()
}

pub fn run_str_history<A, S>(rep: &mut Report, p: &CollParams, hist: u64, seed: u64, fail: FailPlan) -> u64
where
    A: MonHandle + BaseAllocator<S::GuaranteedAllocated>,
    S: BumpAllocatorSettings,
{
    let rng = Rng::new(seed);
    let fam = hist % 5;
    let cfg = format!("str{}/{}{}/{}", fam, if S::UP { "U" } else { "D" }, S::MIN_ALIGN, A::NAME);
    let mon: Shared = Rc::new(RefCell::new(MonState::new(if p.thick { Policy::thick() } else { Policy::thin() }, FailPlan::default(), seed)));
    set_current(Some(mon.clone()));
    tr::reset_ledger();
    rep.histories += 1;
    let mut ctx = VCtx { rng, rep, cfg, hist, op: 0, desc: String::new(), mon: Some(mon.clone()), viols: 0, trace: Vec::new(), leaked: BTreeSet::new(), leaked_z: 0, injected: 0, hit: 0 };
    if let Err(pl) = guarded(|| body::<A, S>(&mut ctx, p, fam, fail)) {
        match classify(&pl) {
            PanicKind::Msg(m) => ctx.viol("C09", format!("unexpected_panic:{}", crate::arena::msg_sig(&m)), format!("{} :: {m}", ctx.desc)),
            k => ctx.viol("C09", format!("unexpected_panic:{k:?}"), ctx.desc.clone()),
        }
    }
    tr::set_fuel(None);
    if ctx.viols == 0 {
        let mut m = mon.borrow_mut();
        m.check_quiescent();
        let probs: Vec<_> = m.problems.drain(..).collect();
        let leaked = m.live_count;
        drop(m);
        for (sig, d) in probs {
            ctx.viol("C05", sig, d);
        }
        if leaked != 0 {
            ctx.viol("C07", "chunk_never_released".into(), format!("{leaked} grants"));
        }
    }
    set_current(None);
    let h = mix(&[hash_str(&ctx.cfg), hash_str(&ctx.trace.join(";"))]);
    ctx.rep.nontrivial.insert(h);
    ctx.rep.states.insert(mix(&[hash_str(&ctx.cfg), ctx.hit]));
    if ctx.rep.samples.len() < 2 && ctx.trace.len() > 4 {
        let s = format!("[{} hist {hist} seed {seed}] {}", ctx.cfg, ctx.trace.iter().take(20).cloned().collect::<Vec<_>>().join(" ; "));
        ctx.rep.samples.push(s);
    }
    mon.borrow().alloc_calls
}

fn run_ops(v: &mut dyn StrLike, model: &mut String, ctx: &mut VCtx, n: usize) {
    for _ in 0..n {
        if ctx.viols > 3 {
            break;
        }
        step(v, model, ctx);
    }
}

fn random_bytes(rng: &mut Rng) -> Vec<u8> {
    let mut v = Vec::new();
    for _ in 0..rng.range(0, 10) {
        match rng.below(8) {
            0 => v.push(rng.below(256) as u8),
            1 => v.extend_from_slice(&[0xF0, 0x9F]),           // truncated 4-byte sequence
            2 => v.extend_from_slice(&[0xED, 0xA0, 0x80]),     // encoded surrogate
            3 => v.extend_from_slice(&[0xC0, 0xAF]),           // overlong
            4 => v.push(0x80 + rng.below(64) as u8),           // stray continuation
            _ => v.extend_from_slice(ALPHABET[rng.below(ALPHABET.len())].as_bytes()),
        }
    }
    v
}

fn random_u16s(rng: &mut Rng) -> Vec<u16> {
    let mut v = Vec::new();
    for _ in 0..rng.range(0, 10) {
        match rng.below(6) {
            0 => v.push(0xD800 + rng.below(0x400) as u16), // lone high surrogate
            1 => v.push(0xDC00 + rng.below(0x400) as u16), // lone low surrogate
            2 => v.extend_from_slice(&[0xD83D, 0xDE00]),   // valid pair
            _ => v.extend(ALPHABET[rng.below(ALPHABET.len())].encode_utf16()),
        }
    }
    v
}

fn body<A, S>(ctx: &mut VCtx, p: &CollParams, fam: u64, fail: FailPlan)
where
    A: MonHandle + BaseAllocator<S::GuaranteedAllocated>,
    S: BumpAllocatorSettings,
{
    let mon = ctx.mon.clone().unwrap();
    ctx.begin("init arena".into());
    let Ok(mut bump) = Bump::<A, S>::try_new_in(A::with(&mon)) else { return };
    if ctx.rng.bool() {
        let _ = bump.try_alloc_str("xyz");
    }
    if ctx.rng.chance(1, 3) {
        let cap = bump.stats().capacity();
        bump.scoped(|s| {
            let _ = s.try_alloc_slice_fill(cap + 40, 1u8);
        });
    }
    mon.borrow_mut().fail = fail;
    let base0 = mon.borrow().alloc_calls;
    mon.borrow_mut().fail.fail_calls.iter_mut().for_each(|k| *k += base0);
    if let Some(k) = mon.borrow_mut().fail.fail_from.as_mut() {
        *k += base0;
    }
    let init = text(&mut ctx.rng, 10);
    let mut model = init.clone();
    match fam {
        0 => {
            ctx.begin(format!("create BumpBox<str> {init:?}"));
            let Ok(mut b) = bump.try_alloc_str(&init) else { return };
            run_ops(&mut b, &mut model, ctx, p.ops);
            // split_off on the boxed str: every byte index
            for _ in 0..3 {
                let len = model.len();
                let r = gen_range(&mut ctx.rng, len);
                ctx.begin(format!("BumpBox<str>::split_off {r:?}"));
                let exp = model_do(|| {
                    let mut m = model.clone();
                    let d: String = m.drain(r).collect();
                    (m, d)
                });
                let got = guarded(|| b.split_off(r));
                check_split(ctx, "BumpBox<str>", exp, got.map(|x| x.to_string()), &b, &mut model, r);
            }
        }
        1 => {
            let cap = init.len() + ctx.rng.range(0, 40);
            ctx.begin(format!("create FixedBumpString cap {cap} {init:?}"));
            let Ok(mut f) = FixedBumpString::try_with_capacity_in(cap, &bump) else { return };
            f.push_str(&init);
            run_ops(&mut f, &mut model, ctx, p.ops);
            for _ in 0..3 {
                let len = model.len();
                let r = gen_range(&mut ctx.rng, len);
                ctx.begin(format!("FixedBumpString::split_off {r:?}"));
                let exp = model_do(|| {
                    let mut m = model.clone();
                    let d: String = m.drain(r).collect();
                    (m, d)
                });
                let cap_before = f.capacity();
                let got = guarded(|| f.split_off(r));
                let got = match got {
                    Ok(mut off) => {
                        let text = off.as_str().to_string();
                        // C16: the two parts are independent and share the original capacity
                        if off.capacity() + f.capacity() != cap_before {
                            ctx.viol("C16", "capacities_do_not_add_up:FixedBumpString".into(), format!("{} + {} != {cap_before} after split_off {r:?}", off.capacity(), f.capacity()));
                        }
                        let rest_before = f.as_str().to_string();
                        for _ in 0..(off.capacity() - off.len()).min(64) {
                            off.push('z');
                        }
                        if f.as_str() != rest_before {
                            ctx.viol("C16", "sibling_part_changed:FixedBumpString".into(), format!("filling the split-off part changed the remainder: {:?} -> {:?}", rest_before, f.as_str()));
                        }
                        let off_now = off.as_str().to_string();
                        for _ in 0..(f.capacity() - f.len()).min(64) {
                            f.push('y');
                        }
                        if off.as_str() != off_now {
                            ctx.viol("C16", "sibling_part_changed:FixedBumpString".into(), format!("filling the remainder changed the split-off part: {:?} -> {:?}", off_now, off.as_str()));
                        }
                        f.truncate(rest_before.len());
                        ctx.rep.count("string_split_parts_filled");
                        Ok(text)
                    }
                    Err(p) => Err(p),
                };
                check_split(ctx, "FixedBumpString", exp, got, &f, &mut model, r);
            }
        }
        2 | 3 => {
            let s = bump.as_scope();
            let ctor = ctx.rng.below(5);
            ctx.begin(format!("create BumpString {init:?} via {}", ["try_from_str_in", "from_str_in", "with_capacity_in + push_str", "new_in + push_str", "try_with_capacity_in + push_str"][ctor]));
            let r = guarded(|| -> Result<BumpString<&BumpScope<A, S>>, AllocError> {
                Ok(match ctor {
                    0 => BumpString::try_from_str_in(&init, s)?,
                    1 => BumpString::from_str_in(&init, s),
                    2 => {
                        let mut v = BumpString::with_capacity_in(init.len(), s);
                        if v.capacity() < init.len() {
                            panic!("with_capacity_in({}) gave capacity {}", init.len(), v.capacity());
                        }
                        v.push_str(&init);
                        v
                    }
                    3 => {
                        let mut v = BumpString::new_in(s);
                        v.push_str(&init);
                        v
                    }
                    _ => {
                        let mut v = BumpString::try_with_capacity_in(init.len() + 3, s)?;
                        v.try_push_str(&init)?;
                        v
                    }
                })
            });
            let mut v = match r {
                Ok(Ok(v)) => v,
                Ok(Err(_)) => return,
                Err(pl) => {
                    if classify(&pl) != PanicKind::AllocError {
                        ctx.viol("C09", "constructor_panicked:BumpString".into(), format!("{:?}", classify(&pl)));
                    }
                    return;
                }
            };
            if v.as_str() != init {
                ctx.viol("C09", "constructed_contents_differ:BumpString".into(), format!("{:?} vs {init:?}", v.as_str()));
            }
            run_ops(&mut v, &mut model, ctx, p.ops);
            for _ in 0..2 {
                let len = model.len();
                let r = gen_range(&mut ctx.rng, len);
                ctx.begin(format!("BumpString::split_off {r:?}"));
                let exp = model_do(|| {
                    let mut m = model.clone();
                    let d: String = m.drain(r).collect();
                    (m, d)
                });
                let cap_before = v.capacity();
                let got = guarded(|| v.split_off(r));
                let got = match got {
                    Ok(mut off) => {
                        let text = off.as_str().to_string();
                        // C16: the two parts are independent and share the original capacity
                        if off.capacity() + v.capacity() != cap_before {
                            ctx.viol("C16", "capacities_do_not_add_up:BumpString".into(), format!("{} + {} != {cap_before} after split_off {r:?}", off.capacity(), v.capacity()));
                        }
                        let rest_before = v.as_str().to_string();
                        for _ in 0..(off.capacity() - off.len()).min(64) {
                            off.push('z');
                        }
                        if v.as_str() != rest_before {
                            ctx.viol("C16", "sibling_part_changed:BumpString".into(), format!("filling the split-off part changed the remainder: {:?} -> {:?}", rest_before, v.as_str()));
                        }
                        let off_now = off.as_str().to_string();
                        for _ in 0..(v.capacity() - v.len()).min(64) {
                            v.push('y');
                        }
                        if off.as_str() != off_now {
                            ctx.viol("C16", "sibling_part_changed:BumpString".into(), format!("filling the remainder changed the split-off part: {:?} -> {:?}", off_now, off.as_str()));
                        }
                        v.truncate(rest_before.len());
                        ctx.rep.count("string_split_parts_filled");
                        Ok(text)
                    }
                    Err(p) => Err(p),
                };
                check_split(ctx, "BumpString", exp, got, &v, &mut model, r);
            }
            if fam == 3 {
                ctx.begin("BumpString::into_cstr".into());
                if let Ok(Ok(c)) = guarded(|| v.try_into_cstr()) {
                    check_cstr(ctx, c.to_bytes_with_nul(), &model, "into_cstr");
                }
            }
            // decoding constructors
            for _ in 0..4 {
                let bytes = random_bytes(&mut ctx.rng);
                ctx.begin(format!("from_utf8 / from_utf8_lossy_in {bytes:x?}"));
                if std::str::from_utf8(&bytes).is_err() {
                    ctx.ev("invalid_utf8_input");
                }
                let lossy = guarded(|| BumpString::try_from_utf8_lossy_in(&bytes, s).map(|x| x.as_str().to_string()));
                match lossy {
                    Ok(Ok(x)) => {
                        let m = String::from_utf8_lossy(&bytes);
                        if x != *m {
                            ctx.viol("C09", "from_utf8_lossy_differs".into(), format!("{bytes:x?}: {x:?} vs {m:?}"));
                        }
                        if x.contains('\u{FFFD}') {
                            ctx.ev("lossy_replaced");
                        }
                    }
                    Ok(Err(_)) => {}
                    Err(pl) => ctx.viol("C09", "from_utf8_lossy_panicked".into(), format!("{:?}", classify(&pl))),
                }
                if let Ok(Ok(mut bv)) = guarded(|| BumpVec::try_with_capacity_in(bytes.len(), s)) {
                    if bv.try_extend_from_slice_copy(&bytes).is_ok() {
                        let r = guarded(|| BumpString::from_utf8(bv).map(|x| x.as_str().to_string()).map_err(|_| ()));
                        match r {
                            Ok(r) => {
                                let m = String::from_utf8(bytes.clone()).map_err(|_| ());
                                if r != m {
                                    ctx.viol("C09", "from_utf8_differs".into(), format!("{bytes:x?}: {r:?} vs {m:?}"));
                                }
                            }
                            Err(pl) => ctx.viol("C09", "from_utf8_panicked".into(), format!("{:?}", classify(&pl))),
                        }
                    }
                }
                let u = random_u16s(&mut ctx.rng);
                ctx.begin(format!("from_utf16_in / lossy {u:x?}"));
                match guarded(|| BumpString::try_from_utf16_in(&u, s).map(|r| r.map(|x| x.as_str().to_string()).map_err(|_| ()))) {
                    Ok(Ok(r)) => {
                        let m = String::from_utf16(&u).map_err(|_| ());
                        if r != m {
                            ctx.viol("C09", "from_utf16_differs".into(), format!("{u:x?}: {r:?} vs {m:?}"));
                        }
                    }
                    Ok(Err(_)) => {}
                    Err(pl) => ctx.viol("C09", "from_utf16_panicked".into(), format!("{:?}", classify(&pl))),
                }
                match guarded(|| BumpString::try_from_utf16_lossy_in(&u, s).map(|x| x.as_str().to_string())) {
                    Ok(Ok(x)) => {
                        let m = String::from_utf16_lossy(&u);
                        if x != m {
                            ctx.viol("C09", "from_utf16_lossy_differs".into(), format!("{u:x?}: {x:?} vs {m:?}"));
                        }
                    }
                    Ok(Err(_)) => {}
                    Err(pl) => ctx.viol("C09", "from_utf16_lossy_panicked".into(), format!("{:?}", classify(&pl))),
                }
            }
            // the panicking forms of the decoding constructors
            for _ in 0..2 {
                let bytes = random_bytes(&mut ctx.rng);
                let u = random_u16s(&mut ctx.rng);
                ctx.begin(format!("BumpString::from_utf8_lossy_in {bytes:x?}"));
                let r = guarded(|| Ok(BumpString::from_utf8_lossy_in(&bytes, s).as_str().to_string()));
                decode_check(ctx, "BumpString::from_utf8_lossy_in", r, String::from_utf8_lossy(&bytes).into_owned(), false);
                ctx.begin(format!("BumpString::from_utf16_in {u:x?}"));
                let inv = || "<invalid utf-16>".to_string();
                let r = guarded(|| Ok(BumpString::from_utf16_in(&u, s).map_or_else(|_| inv(), |x| x.as_str().to_string())));
                decode_check(ctx, "BumpString::from_utf16_in", r, String::from_utf16(&u).unwrap_or_else(|_| inv()), false);
                ctx.begin(format!("BumpString::from_utf16_lossy_in {u:x?}"));
                let r = guarded(|| Ok(BumpString::from_utf16_lossy_in(&u, s).as_str().to_string()));
                decode_check(ctx, "BumpString::from_utf16_lossy_in", r, String::from_utf16_lossy(&u), false);
            }
            // byte-level conversions keep the text
            {
                let t = text(&mut ctx.rng, 8);
                ctx.begin(format!("BumpString::into_bytes / BumpBox<str>::into_boxed_bytes / FixedBumpString::into_bytes {t:?}"));
                let r = guarded(|| -> Result<(), AllocError> {
                    let bytes = BumpString::try_from_str_in(&t, s)?.into_bytes();
                    assert_eq!(&*bytes, t.as_bytes(), "BumpString::into_bytes");
                    let back = match BumpString::from_utf8(bytes) {
                        Ok(b) => b,
                        Err(_) => panic!("from_utf8 rejected valid UTF-8"),
                    };
                    let fixed = back.into_fixed_string();
                    assert_eq!(fixed.as_str(), t, "into_fixed_string");
                    let fb = fixed.into_bytes();
                    assert_eq!(&*fb, t.as_bytes(), "FixedBumpString::into_bytes");
                    let fs = match FixedBumpString::from_utf8(fb) {
                        Ok(b) => b,
                        Err(_) => panic!("FixedBumpString::from_utf8 rejected valid UTF-8"),
                    };
                    let boxed = fs.into_boxed_str();
                    assert_eq!(&*boxed, t, "into_boxed_str");
                    let bb = boxed.into_boxed_bytes();
                    assert_eq!(&*bb, t.as_bytes(), "into_boxed_bytes");
                    match BumpBox::<str>::from_utf8(bb) {
                        Ok(b) => assert_eq!(&*b, t, "BumpBox<str>::from_utf8"),
                        Err(_) => panic!("BumpBox<str>::from_utf8 rejected valid UTF-8"),
                    }
                    Ok(())
                });
                if let Err(pl) = r {
                    ctx.viol("C09", "byte_conversion_round_trip".into(), format!("{:?}", classify(&pl)));
                }
                ctx.ev("conversion");
            }
            // C-string constructors on the arena
            let t = text(&mut ctx.rng, 10);
            ctx.begin(format!("alloc_cstr_from_str / alloc_cstr_fmt {t:?}"));
            if let Ok(Ok(c)) = guarded(|| s.try_alloc_cstr_from_str(&t)) {
                check_cstr(ctx, c.to_bytes_with_nul(), &t, "alloc_cstr_from_str");
            }
            if let Ok(Ok(c)) = guarded(|| s.try_alloc_cstr_fmt(format_args!("{t}{}", 17))) {
                check_cstr(ctx, c.to_bytes_with_nul(), &format!("{t}17"), "alloc_cstr_fmt");
            }
            // formatting with a failing Display
            let d = FailingDisplay(1, t.clone());
            ctx.begin("try_alloc_fmt with a Display that fails".into());
            match guarded(|| s.try_alloc_fmt(format_args!("{d}")).map(|b| b.to_string())) {
                Ok(Ok(x)) => ctx.viol("C09", "alloc_fmt_ignored_formatting_error".into(), x),
                Ok(Err(_)) => {}
                Err(pl) => ctx.viol("C07", "try_method_panicked:try_alloc_fmt".into(), format!("{:?}", classify(&pl))),
            }
            match guarded(|| s.alloc_fmt(format_args!("{}", FailingDisplay(0, t.clone()))).to_string()) {
                Ok(x) => {
                    if x != t {
                        ctx.viol("C09", "alloc_fmt_contents_differ".into(), format!("{x:?} vs {t:?}"));
                    }
                }
                Err(pl) => {
                    if classify(&pl) != PanicKind::AllocError {
                        ctx.viol("C09", "alloc_fmt_panicked".into(), format!("{:?}", classify(&pl)));
                    }
                }
            }
        }
        _ => {
            let s = bump.as_mut_scope();
            // decoding constructors of the exclusive-borrow string, panicking and try_ forms
            for _ in 0..2 {
                let bytes = random_bytes(&mut ctx.rng);
                let u = random_u16s(&mut ctx.rng);
                let try_ = ctx.rng.bool();
                let t = if try_ { "try_" } else { "" };
                ctx.begin(format!("MutBumpString::{t}from_utf8_lossy_in {bytes:x?}"));
                let r = guarded(|| if try_ { MutBumpString::try_from_utf8_lossy_in(&bytes, &mut *s).map(|x| x.as_str().to_string()) } else { Ok(MutBumpString::from_utf8_lossy_in(&bytes, &mut *s).as_str().to_string()) });
                decode_check(ctx, "MutBumpString::from_utf8_lossy_in", r, String::from_utf8_lossy(&bytes).into_owned(), try_);
                ctx.begin(format!("MutBumpString::{t}from_utf16_in {u:x?}"));
                let inv = || "<invalid utf-16>".to_string();
                let r = guarded(|| {
                    if try_ {
                        MutBumpString::try_from_utf16_in(&u, &mut *s).map(|r| r.map_or_else(|_| inv(), |x| x.as_str().to_string()))
                    } else {
                        Ok(MutBumpString::from_utf16_in(&u, &mut *s).map_or_else(|_| inv(), |x| x.as_str().to_string()))
                    }
                });
                decode_check(ctx, "MutBumpString::from_utf16_in", r, String::from_utf16(&u).unwrap_or_else(|_| inv()), try_);
                ctx.begin(format!("MutBumpString::{t}from_utf16_lossy_in {u:x?}"));
                let r = guarded(|| if try_ { MutBumpString::try_from_utf16_lossy_in(&u, &mut *s).map(|x| x.as_str().to_string()) } else { Ok(MutBumpString::from_utf16_lossy_in(&u, &mut *s).as_str().to_string()) });
                decode_check(ctx, "MutBumpString::from_utf16_lossy_in", r, String::from_utf16_lossy(&u), try_);
            }
            let ctor = ctx.rng.below(5);
            ctx.begin(format!("create MutBumpString {init:?} via {}", ["try_from_str_in", "from_str_in", "with_capacity_in + push_str", "new_in + push_str", "from_utf8(MutBumpVec<u8>)"][ctor]));
            let r = guarded(|| -> Result<MutBumpString<&mut BumpScope<A, S>>, AllocError> {
                Ok(match ctor {
                    0 => MutBumpString::try_from_str_in(&init, s)?,
                    1 => MutBumpString::from_str_in(&init, s),
                    2 => {
                        let mut v = MutBumpString::with_capacity_in(init.len(), s);
                        if v.capacity() < init.len() {
                            panic!("with_capacity_in({}) gave capacity {}", init.len(), v.capacity());
                        }
                        v.push_str(&init);
                        v
                    }
                    3 => {
                        let mut v = MutBumpString::new_in(s);
                        v.push_str(&init);
                        v
                    }
                    _ => {
                        let mut bv = bump_scope::MutBumpVec::try_with_capacity_in(init.len(), s)?;
                        bv.try_extend_from_slice_copy(init.as_bytes())?;
                        match MutBumpString::from_utf8(bv) {
                            Ok(v) => v,
                            Err(_) => panic!("from_utf8 rejected valid UTF-8"),
                        }
                    }
                })
            });
            let mut v = match r {
                Ok(Ok(v)) => v,
                Ok(Err(_)) => return,
                Err(pl) => {
                    if classify(&pl) != PanicKind::AllocError {
                        ctx.viol("C09", "constructor_panicked:MutBumpString".into(), format!("{:?}", classify(&pl)));
                    }
                    return;
                }
            };
            if v.as_str() != init {
                ctx.viol("C09", "constructed_contents_differ:MutBumpString".into(), format!("{:?} vs {init:?}", v.as_str()));
            }
            run_ops(&mut v, &mut model, ctx, p.ops);
            if ctx.rng.bool() {
                ctx.begin("MutBumpString::into_boxed_str".into());
                let b = v.into_boxed_str();
                if &*b != model.as_str() {
                    ctx.viol("C15", "finalised_contents_differ:MutBumpString".into(), format!("{:?} vs {model:?}", &*b));
                }
                ctx.ev("commit_mut");
            } else {
                ctx.begin("MutBumpString::into_cstr".into());
                if let Ok(Ok(c)) = guarded(|| v.try_into_cstr()) {
                    check_cstr(ctx, c.to_bytes_with_nul(), &model, "MutBumpString::into_cstr");
                }
            }
        }
    }
    ctx.begin("drop arena".into());
    drop(bump);
}

/// Result of a decoding constructor against the std result; a refusal is an Err of the try_ form or an
/// allocation-error unwind of the panicking form, nothing else.
fn decode_check(ctx: &mut VCtx, what: &str, r: Result<Result<String, AllocError>, Box<dyn std::any::Any + Send>>, expect: String, try_: bool) {
    match r {
        Ok(Ok(x)) => {
            if x != expect {
                ctx.viol("C09", format!("decoded_text_differs:{what}"), format!("{x:?} vs {expect:?}"));
            }
            if x.contains('\u{FFFD}') {
                ctx.ev("lossy_replaced");
            }
        }
        Ok(Err(_)) => {
            if !ctx.refused() {
                ctx.viol("C07", format!("try_method_failed_without_cause:{what}"), ctx.desc.clone());
            }
        }
        Err(pl) => {
            let k = classify(&pl);
            if try_ || k != PanicKind::AllocError || !ctx.refused() {
                ctx.viol(if try_ { "C07" } else { "C09" }, format!("decoding_constructor_panicked:{what}"), format!("{k:?}"));
            }
        }
    }
}

fn check_cstr(ctx: &mut VCtx, got: &[u8], text: &str, what: &str) {
    let mut exp: Vec<u8> = text.as_bytes().iter().copied().take_while(|b| *b != 0).collect();
    exp.push(0);
    if got != exp {
        ctx.viol("C09", format!("cstr_contents_differ:{what}"), format!("{got:x?} vs {exp:x?}"));
    }
    ctx.ev("cstr");
}

fn check_split(ctx: &mut VCtx, fam: &str, exp: Result<(String, String), ()>, got: Result<String, Box<dyn std::any::Any + Send>>, rest: &dyn StrLike, model: &mut String, r: (Bound<usize>, Bound<usize>)) {
    match (exp, got) {
        (Ok((m, d)), Ok(g)) => {
            if g != d || rest.as_str() != m {
                ctx.viol("C16", format!("split_off_parts_differ:{fam}"), format!("{r:?}: removed {g:?} rest {:?}; expected {d:?} / {m:?}", rest.as_str()));
            }
            *model = rest.as_str().to_string();
            ctx.ev("split");
        }
        (Err(()), Ok(g)) => {
            ctx.viol("C09", format!("no_panic_where_std_panics:{fam}:split_off"), format!("{r:?} on {model:?} returned {g:?}"));
            *model = rest.as_str().to_string();
        }
        (Ok(_), Err(p)) => {
            ctx.viol("C09", format!("panic_where_std_does_not:{fam}:split_off"), format!("{r:?} on {model:?}: {:?}", classify(&p)));
            *model = rest.as_str().to_string();
        }
        (Err(()), Err(_)) => {
            ctx.ev("str_panic_matched");
            *model = rest.as_str().to_string();
        }
    }
    let (addr, n) = rest.raw();
    let bytes = unsafe { std::slice::from_raw_parts(addr.as_ptr() as *const u8, n) };
    if std::str::from_utf8(bytes).is_err() {
        ctx.viol("C09", format!("invalid_utf8_contents:{fam}:split_off"), format!("{bytes:x?}"));
    }
}
