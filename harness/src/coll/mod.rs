//! Collection drivers: vector families against a `Vec` model (C08), drop ledger with panic fuel
//! (C06), allocation-failure behaviour (C07), exclusive-borrow collections (C15), splitting (C16),
//! strings (C09).

pub mod boxes;
pub mod families;
pub mod hist;
pub mod split;
pub mod strs;
pub mod vecs;

use bump_scope::alloc::AllocError;
use std::ops::Bound;

use crate::tr::Elem;

/// What the interpreter needs from every vector family (object safe).
pub trait VecCore<E: Elem> {
    fn family(&self) -> &'static str;
    fn is_rev(&self) -> bool {
        false
    }
    fn is_fixed(&self) -> bool {
        false
    }
    fn len(&self) -> usize;
    /// `None`: the type has no capacity notion (boxed slice)
    fn capacity(&self) -> Option<usize>;
    fn slice(&self) -> &[E];
    /// address that stays put while the buffer is not reallocated (start, or end for the rev vector)
    fn anchor(&self) -> usize;
    fn pop(&mut self) -> Option<E>;
    fn remove(&mut self, i: usize) -> E;
    fn swap_remove(&mut self, i: usize) -> E;
    fn truncate(&mut self, n: usize);
    fn clear(&mut self);
    fn filter(&mut self) -> Option<&mut dyn VecFilter<E>> {
        None
    }
    fn grow(&mut self) -> Option<&mut dyn VecGrow<E>> {
        None
    }
    /// (chunk start, bump position) of every chunk, for collections that can report allocator stats
    fn positions(&self) -> Option<Vec<(usize, usize)>> {
        None
    }
    fn allocated(&self) -> Option<usize> {
        None
    }
}

#[derive(Clone, Copy, Debug, PartialEq, Eq)]
pub enum DrainEnd {
    Drop,
    Forget,
    KeepRest,
}

pub trait VecFilter<E: Elem> {
    fn retain(&mut self, f: &mut dyn FnMut(&mut E) -> bool);
    fn dedup(&mut self);
    fn dedup_by(&mut self, f: &mut dyn FnMut(&mut E, &mut E) -> bool);
    fn dedup_by_key(&mut self, f: &mut dyn FnMut(&mut E) -> u32);
    /// drains `range`, pulling elements according to `script` (false = front, true = back)
    fn drain_script(&mut self, range: (Bound<usize>, Bound<usize>), script: &[bool], end: DrainEnd) -> Vec<E>;
    /// `extract_if` with `pred`, pulling at most `take` elements, then dropping the iterator
    fn extract_if_script(&mut self, pred: &mut dyn FnMut(&mut E) -> bool, take: usize) -> Vec<E>;
}

pub trait VecGrow<E: Elem> {
    fn push(&mut self, e: E);
    fn try_push(&mut self, e: E) -> Result<(), AllocError>;
    fn push_with(&mut self, f: &mut dyn FnMut() -> E);
    fn insert(&mut self, i: usize, e: E);
    fn try_insert(&mut self, i: usize, e: E) -> Result<(), AllocError>;
    fn pop_if(&mut self, f: &mut dyn FnMut(&mut E) -> bool) -> Option<E>;
    fn resize(&mut self, n: usize, e: E);
    fn try_resize(&mut self, n: usize, e: E) -> Result<(), AllocError>;
    fn resize_with(&mut self, n: usize, f: &mut dyn FnMut() -> E);
    fn extend_from_slice_clone(&mut self, s: &[E]);
    fn try_extend_from_slice_clone(&mut self, s: &[E]) -> Result<(), AllocError>;
    /// only for `Copy` element types (others: falls back to the clone variant)
    fn extend_from_slice_copy(&mut self, s: &[E]);
    fn extend_from_within_clone(&mut self, r: (Bound<usize>, Bound<usize>));
    fn extend_from_within_copy(&mut self, r: (Bound<usize>, Bound<usize>));
    fn append_vec(&mut self, v: Vec<E>);
    fn try_append_vec(&mut self, v: Vec<E>) -> Result<(), AllocError>;
    fn append_array3(&mut self, v: [E; 3]);
    fn reserve(&mut self, n: usize);
    fn try_reserve(&mut self, n: usize) -> Result<(), AllocError>;
    /// `None` if the family has no such method
    fn try_reserve_exact(&mut self, n: usize) -> Option<Result<(), AllocError>>;
    fn shrink_to_fit(&mut self) -> bool {
        false
    }
    // --- the remaining growth entry points (second generation of the interpreter) ---
    fn try_push_with(&mut self, f: &mut dyn FnMut() -> E) -> Result<(), AllocError>;
    /// the `_mut` variants return (value read through the returned reference, index of the referenced element)
    fn push_mut(&mut self, e: E) -> (u32, usize);
    fn try_push_mut(&mut self, e: E) -> Result<(u32, usize), AllocError>;
    fn push_mut_with(&mut self, f: &mut dyn FnMut() -> E) -> (u32, usize);
    fn try_push_mut_with(&mut self, f: &mut dyn FnMut() -> E) -> Result<(u32, usize), AllocError>;
    fn insert_mut(&mut self, i: usize, e: E) -> (u32, usize);
    fn try_insert_mut(&mut self, i: usize, e: E) -> Result<(u32, usize), AllocError>;
    fn try_extend_from_slice_copy(&mut self, s: &[E]) -> Result<(), AllocError>;
    fn try_extend_from_within_copy(&mut self, r: (Bound<usize>, Bound<usize>)) -> Result<(), AllocError>;
    fn try_extend_from_within_clone(&mut self, r: (Bound<usize>, Bound<usize>)) -> Result<(), AllocError>;
    fn try_resize_with(&mut self, n: usize, f: &mut dyn FnMut() -> E) -> Result<(), AllocError>;
    /// false: the family has no such method
    fn reserve_exact(&mut self, _n: usize) -> bool {
        false
    }
    fn shrink_to(&mut self, _n: usize) -> bool {
        false
    }
    /// writes `vals` (in address order) into the spare capacity next to the contents and `set_len`s;
    /// `via_split`: through `split_at_spare_mut` (returns false if the initialised half differs from `expect`)
    fn spare_fill(&mut self, vals: Vec<E>, via_split: bool, expect: &[u32]) -> bool;
    /// `Extend<E>` (by value) or `Extend<&E>`; the iterator reports `hint` as its lower size bound
    fn extend_iter(&mut self, vals: Vec<E>, by_ref: bool, hint: usize);
    /// `append` / `try_append` of an owned-slice source of `kind` built from `vals`, of which `k` front and `j` back
    /// elements were consumed first where the kind is an iterator
    fn append_src(&mut self, kind: usize, vals: Vec<E>, k: usize, j: usize, try_: bool) -> Result<(), AllocError>;
}

pub const APPEND_KINDS: [&str; 14] = [
    "Box<[T]>", "BumpBox<[T]>", "FixedBumpVec", "BumpVec", "MutBumpVec", "MutBumpVecRev", "owned_slice::IntoIter", "owned_slice::Drain", "vec::IntoIter", "vec::Drain", "&mut Vec", "&mut BumpVec",
    "BumpBox<[T;3]>", "Box<[T;3]>",
];
