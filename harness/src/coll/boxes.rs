//! `BumpBox` routes that are not vector operations: initialising uninit boxes and slices (`init`,
//! `init_fill`, `init_fill_with`, `init_fill_iter`, `init_clone`, `init_move`, `init_copy`), taking the
//! value back (`into_inner`), the explicit leak routes (`leak`, `into_mut`, `into_ref`), raw round trips,
//! `dyn Any` downcasts, arrays as owned slices, comparison / hashing forwards.
//!
//! Each scenario runs with the history's panic fuel armed and is judged by the drop ledger (C06: every
//! value dropped exactly once unless it left through an explicit leak route) and by the values it
//! returns (C08: same contents as the std construction).

use super::families::HintIter;
use super::vecs::VCtx;
use crate::arena::{PanicKind, classify, guarded};
use crate::monalloc::MonHandle;
use crate::tr::{self, Elem};
use bump_scope::alloc::AllocError;
use bump_scope::settings::BumpAllocatorSettings;
use bump_scope::{BaseAllocator, Bump, BumpBox, unsize_bump_box};
use std::any::Any;
use std::hash::{Hash, Hasher};

/// explicit leaks a scenario performed: identities of non-zero-sized values, count of zero-sized ones
#[derive(Default)]
struct Leaks {
    ids: Vec<u32>,
    zst: i64,
}

impl Leaks {
    fn note<E: Elem>(&mut self, e: &E) {
        match e.id() {
            Some(i) => self.ids.push(i),
            None if E::TRACKED && E::ZST => self.zst += 1,
            None => {}
        }
    }
}

fn vals<E: Elem>(s: &[E]) -> Vec<u32> {
    s.iter().map(|e| e.val()).collect()
}

fn expect_eq(what: &str, got: Vec<u32>, want: Vec<u32>) -> Result<(), String> {
    if got == want { Ok(()) } else { Err(format!("{what}: real {:?} expected {:?}", &got[..got.len().min(16)], &want[..want.len().min(16)])) }
}

/// Runs one scenario under the armed fuel and judges the ledger afterwards: whatever the scenario created is
/// gone (dropped exactly once) or was leaked through a route the scenario recorded.
fn scenario<E: Elem>(ctx: &mut VCtx, name: String, f: impl FnOnce(&mut Leaks) -> Result<Result<(), String>, AllocError>) {
    ctx.begin(name);
    let short = ctx.desc.split(|c: char| c == ' ' || c == '(').next().unwrap_or("?").to_string();
    let mut leaks = Leaks::default();
    let r = guarded(|| f(&mut leaks));
    match r {
        Ok(Ok(Ok(()))) => ctx.ev("finalised"),
        Ok(Ok(Err(d))) => ctx.viol("C08", format!("box_result_differs:{short}"), d),
        Ok(Err(_)) => {
            if ctx.refused() {
                ctx.ev("alloc_refused");
            } else {
                ctx.viol("C07", format!("try_method_failed_without_cause:{short}"), ctx.desc.clone());
            }
        }
        Err(p) => match classify(&p) {
            PanicKind::Fuel => {
                let in_drop = tr::ledger_view().panicked_in_drop;
                ctx.ev(if in_drop { "panic_injected_in_drop" } else { "panic_injected" });
            }
            PanicKind::AllocError if ctx.refused() => ctx.ev("alloc_refused"),
            PanicKind::Msg(m) if m.contains("expected panic:") => ctx.ev("panic_matched_model"),
            k => ctx.viol("C08", format!("unexpected_panic:{short}"), format!("{k:?}")),
        },
    }
    let lv = tr::ledger_view();
    if !lv.double_drops.is_empty() {
        ctx.viol("C06", format!("value_dropped_twice:{short}"), format!("ids {:?}", lv.double_drops));
    }
    if !lv.use_after_drop.is_empty() {
        ctx.viol("C06", format!("value_used_after_drop:{short}"), format!("ids {:?}", lv.use_after_drop));
    }
    tr::clear_incidents();
    ctx.leaked.extend(leaks.ids.iter().copied());
    ctx.leaked_z += leaks.zst;
    if E::TRACKED && !E::ZST {
        let lost: Vec<u32> = lv.live_ids.iter().copied().filter(|i| !ctx.leaked.contains(i)).collect();
        if !lost.is_empty() {
            if !lv.panicked_in_drop {
                ctx.viol("C06", format!("value_lost:{short}"), format!("ids {:?} still alive after the scenario ({})", &lost[..lost.len().min(8)], ctx.desc));
            }
            ctx.leaked.extend(lost);
        }
    } else if E::TRACKED && lv.z_live != ctx.leaked_z {
        if !(lv.panicked_in_drop && lv.z_live > ctx.leaked_z) {
            ctx.viol("C06", format!("zst_value_count:{short}"), format!("{} live after the scenario, {} leaked by explicit routes ({})", lv.z_live, ctx.leaked_z, ctx.desc));
        }
        ctx.leaked_z = lv.z_live;
    }
}

/// A short sequence of box scenarios on one arena.
pub fn run<A, S, E>(ctx: &mut VCtx, bump: &mut Bump<A, S>, rounds: usize)
where
    A: MonHandle + BaseAllocator<S::GuaranteedAllocated>,
    S: BumpAllocatorSettings,
    E: Elem,
{
    let m = E::MODULUS;
    for _ in 0..rounds {
        if ctx.viols > 3 {
            break;
        }
        let n = ctx.rng.range(0, 6);
        let xs: Vec<u32> = (0..n).map(|_| ctx.rng.below(m as usize) as u32).collect();
        let x = ctx.rng.below(m as usize) as u32;
        let try_ = ctx.rng.bool();
        let t = if try_ { "try_" } else { "" };
        let mk = |xs: &[u32]| -> Vec<E> { xs.iter().map(|v| E::make(*v)).collect() };
        let b: &Bump<A, S> = bump;
        macro_rules! uninit_slice {
            ($n:expr) => {
                if try_ { b.try_alloc_uninit_slice::<E>($n)? } else { b.alloc_uninit_slice::<E>($n) }
            };
        }
        match ctx.rng.below(17) {
            0 => scenario::<E>(ctx, format!("init_fill {n} x {x} on {t}alloc_uninit_slice"), |_| {
                let s = uninit_slice!(n).init_fill(E::make(x));
                Ok(expect_eq("init_fill", vals(&s), vec![x; n]))
            }),
            1 => scenario::<E>(ctx, format!("init_fill_with {n} on {t}alloc_uninit_slice"), |_| {
                let mut i = 0;
                let s = uninit_slice!(n).init_fill_with(|| {
                    tr::burn();
                    i += 1;
                    E::make(xs[i - 1])
                });
                Ok(expect_eq("init_fill_with", vals(&s), xs.clone()))
            }),
            2 => {
                // the iterator has exactly, fewer or more items than the slice
                let delta = ctx.rng.below(3);
                let len = match delta {
                    0 => n,
                    1 => n + 1,
                    _ => n.saturating_sub(1),
                };
                scenario::<E>(ctx, format!("init_fill_iter slice of {len} from an iterator of {n}"), |_| {
                    let it = HintIter { it: mk(&xs).into_iter(), hint: 0 };
                    let r = guarded(|| uninit_slice_plain(b, len, try_).map(|u| u.init_fill_iter(it)));
                    match r {
                        Ok(Ok(s)) => {
                            if len > n {
                                return Ok(Err("init_fill_iter returned although the iterator ran out".into()));
                            }
                            Ok(expect_eq("init_fill_iter", vals(&s), xs[..len].to_vec()))
                        }
                        Ok(Err(e)) => Err(e),
                        Err(p) => match classify(&p) {
                            PanicKind::Msg(msg) if msg.contains("ran out of items") && len > n => Ok(Ok(())),
                            _ => std::panic::resume_unwind(p),
                        },
                    }
                })
            }
            3 => scenario::<E>(ctx, format!("init_clone {n} on {t}alloc_uninit_slice"), |_| {
                let src = mk(&xs);
                let s = uninit_slice!(n).init_clone(&src);
                Ok(expect_eq("init_clone", vals(&s), xs.clone()))
            }),
            4 => {
                // matching and mismatching lengths (the mismatch is a documented panic that must drop both sides)
                let len = if ctx.rng.chance(1, 4) { n + 1 } else { n };
                let kind = ctx.rng.below(3);
                scenario::<E>(ctx, format!("init_move slice of {len} from {} of {n}", ["Vec", "Box<[T]>", "BumpBox<[T]>"][kind]), |_| {
                    let src = mk(&xs);
                    let u = uninit_slice!(len);
                    let r = guarded(|| match kind {
                        0 => Ok(u.init_move(src)),
                        1 => Ok(u.init_move(src.into_boxed_slice())),
                        _ => Ok(u.init_move(if try_ { b.try_alloc_slice_move(src)? } else { b.alloc_slice_move(src) })),
                    });
                    match r {
                        Ok(Ok(s)) => {
                            if len != n {
                                return Ok(Err("init_move accepted a source of another length".into()));
                            }
                            Ok(expect_eq("init_move", vals(&s), xs.clone()))
                        }
                        Ok(Err(e)) => Err(e),
                        Err(p) => match classify(&p) {
                            PanicKind::Msg(_) if len != n => Ok(Ok(())),
                            _ => std::panic::resume_unwind(p),
                        },
                    }
                })
            }
            5 => scenario::<E>(ctx, format!("{t}alloc_uninit + init {x} + into_inner"), |_| {
                let u = if try_ { b.try_alloc_uninit::<E>()? } else { b.alloc_uninit::<E>() };
                let bx = u.init(E::make(x));
                let v: E = bx.into_inner();
                Ok(expect_eq("into_inner", vec![v.val()], vec![x]))
            }),
            6 => {
                let route = ctx.rng.below(3);
                scenario::<E>(ctx, format!("{t}alloc {x} then {}", ["BumpBox::leak", "into_mut", "into_ref"][route]), |leaks| {
                    let bx = if try_ { b.try_alloc(E::make(x))? } else { b.alloc(E::make(x)) };
                    // `into_mut` / `into_ref` exist only for types without drop glue; `leak` is the route for the others
                    let _ = route;
                    let r: &E = BumpBox::leak(bx);
                    leaks.note(r);
                    Ok(expect_eq("leaked value", vec![r.val()], vec![x]))
                })
            }
            7 => scenario::<E>(ctx, format!("{t}alloc {x} + into_raw + from_raw"), |_| {
                let bx = if try_ { b.try_alloc(E::make(x))? } else { b.alloc(E::make(x)) };
                let raw = bx.into_raw();
                let back = unsafe { BumpBox::from_raw(raw) };
                Ok(expect_eq("raw round trip", vec![back.val()], vec![x]))
            }),
            8 => {
                let hit = ctx.rng.bool();
                scenario::<E>(ctx, format!("dyn Any downcast ({})", if hit { "right type" } else { "wrong type, then right type" }), |_| {
                    let bx = if try_ { b.try_alloc(E::make(x))? } else { b.alloc(E::make(x)) };
                    let any: BumpBox<dyn Any> = unsize_bump_box!(bx);
                    let any = if hit {
                        any
                    } else {
                        match any.downcast::<Unrelated>() {
                            Ok(_) => return Ok(Err("downcast to an unrelated type succeeded".into())),
                            Err(same) => same,
                        }
                    };
                    match any.downcast::<E>() {
                        Ok(e) => Ok(expect_eq("downcast", vec![e.val()], vec![x])),
                        Err(_) => Ok(Err("downcast to the real type failed".into())),
                    }
                })
            }
            9 => scenario::<E>(ctx, format!("array box [T;3] as owned slice -> {t}alloc_slice_move"), |_| {
                let arr = [E::make(x), E::make(x.wrapping_add(1)), E::make(x.wrapping_add(2))];
                let boxed = if try_ { b.try_alloc(arr)? } else { b.alloc(arr) };
                let s = if try_ { b.try_alloc_slice_move(boxed)? } else { b.alloc_slice_move(boxed) };
                Ok(expect_eq("array box moved", vals(&s), vec![x % m, x.wrapping_add(1) % m, x.wrapping_add(2) % m]))
            }),
            10 => scenario::<E>(ctx, format!("comparison and hashing forwards on boxed slices of {n}"), |_| {
                let a = if try_ { b.try_alloc_slice_move(mk(&xs))? } else { b.alloc_slice_move(mk(&xs)) };
                let c = if try_ { b.try_alloc_slice_move(mk(&xs))? } else { b.alloc_slice_move(mk(&xs)) };
                let va = mk(&xs);
                if !(a == c) || a != c {
                    return Ok(Err("equal boxed slices compare unequal".into()));
                }
                if !(*a == *va) {
                    return Ok(Err("boxed slice differs from the equal std slice".into()));
                }
                let (mut h1, mut h2) = (std::collections::hash_map::DefaultHasher::new(), std::collections::hash_map::DefaultHasher::new());
                let (ka, kv): (Vec<u32>, Vec<u32>) = (vals(&a), vals(&va));
                BumpBox::<[u32]>::hash(&b.alloc_slice_copy(&ka), &mut h1);
                kv.as_slice().hash(&mut h2);
                if h1.finish() != h2.finish() {
                    return Ok(Err("hash of a boxed slice differs from the hash of the equal std slice".into()));
                }
                Ok(Ok(()))
            }),
            11 => scenario::<E>(ctx, format!("{t}alloc_slice_fill_with {n} -> into_boxed_slice of single boxes"), |_| {
                // single boxes turned into one-element slices keep their value
                let one = if try_ { b.try_alloc(E::make(x))? } else { b.alloc(E::make(x)) };
                let s = one.into_boxed_slice();
                Ok(expect_eq("into_boxed_slice", vals(&s), vec![x]))
            }),
            12 => scenario::<E>(ctx, format!("BumpBox<[T]> extend-less rebuild: {t}alloc_iter of {n} with a panicking iterator"), |_| {
                let it = HintIter { it: mk(&xs).into_iter(), hint: *[0usize, n, n / 2].get(x as usize % 3).unwrap() };
                let s = if try_ { b.try_alloc_iter(it)? } else { b.alloc_iter(it) };
                Ok(expect_eq("alloc_iter", vals(&s), xs.clone()))
            }),
            14 => scenario::<E>(ctx, format!("{t}alloc_slice_clone of {n}"), |_| {
                let src = mk(&xs);
                let s = if try_ { b.try_alloc_slice_clone(&src)? } else { b.alloc_slice_clone(&src) };
                Ok(expect_eq("alloc_slice_clone", vals(&s), xs.clone()))
            }),
            15 => scenario::<E>(ctx, format!("{t}alloc_slice_fill {n} x {x}"), |_| {
                let s = if try_ { b.try_alloc_slice_fill(n, E::make(x))? } else { b.alloc_slice_fill(n, E::make(x)) };
                Ok(expect_eq("alloc_slice_fill", vals(&s), vec![x; n]))
            }),
            _ => scenario::<E>(ctx, format!("{t}alloc_default / alloc_with {x}"), |_| {
                let w = if try_ {
                    b.try_alloc_with(|| {
                        tr::burn();
                        E::make(x)
                    })?
                } else {
                    b.alloc_with(|| {
                        tr::burn();
                        E::make(x)
                    })
                };
                Ok(expect_eq("alloc_with", vec![w.val()], vec![x]))
            }),
        }
    }
}

struct Unrelated;

fn uninit_slice_plain<'b, A, S, E>(b: &'b Bump<A, S>, n: usize, try_: bool) -> Result<BumpBox<'b, [std::mem::MaybeUninit<E>]>, AllocError>
where
    A: MonHandle + BaseAllocator<S::GuaranteedAllocated>,
    S: BumpAllocatorSettings,
{
    if try_ { b.try_alloc_uninit_slice::<E>(n) } else { Ok(b.alloc_uninit_slice::<E>(n)) }
}
