//! The vector interpreter: one operation at a time on a real collection and on a `Vec<u32>` model.

use super::*;
use crate::arena::{PanicKind, classify, guarded, msg_sig};
use crate::monalloc::Shared;
use crate::out::{Report, Viol};
use crate::rng::Rng;
use crate::tr::{self, Elem};
use std::collections::BTreeSet;
use std::panic::{AssertUnwindSafe, catch_unwind};

pub struct VCtx<'r> {
    pub rng: Rng,
    pub rep: &'r mut Report,
    pub cfg: String,
    pub hist: u64,
    pub op: u64,
    pub desc: String,
    pub mon: Option<Shared>,
    pub viols: u32,
    pub trace: Vec<String>,
    /// ids that left through an explicit leak route (forgotten drain, ...)
    pub leaked: BTreeSet<u32>,
    pub leaked_z: i64,
    /// a panic was injected into the last operation
    pub injected: u64,
    pub hit: u64,
}

pub const COLL_CLASSES: &[&str] = &[
    "grew", "grew_realloc", "panic_matched_model", "panic_injected", "panic_injected_in_drop", "drain_partial", "drain_forgotten", "drain_keep_rest", "extract_if_partial",
    "fixed_full_rejected", "alloc_refused", "commit_mut", "commit_mut_rev", "mut_dropped_unfinalised", "mut_grew_other_chunk", "retain", "dedup", "split", "merge_ok", "merge_rejected",
    "nonboundary_index", "invalid_utf8_input", "lossy_replaced", "str_panic_matched", "cstr", "zst_capacity", "conversion", "finalised",
];

impl<'r> VCtx<'r> {
    pub fn begin(&mut self, d: String) {
        self.op += 1;
        self.rep.ops += 1;
        if let Some(m) = &self.mon {
            m.borrow_mut().begin_op(self.op);
        }
        if self.rep.wal {
            eprintln!("op {} [{}#{}] {}", self.op, self.cfg, self.hist, d);
        }
        if self.trace.len() < 60 {
            self.trace.push(d.clone());
        }
        self.desc = d;
    }
    pub fn viol(&mut self, prop: &'static str, sig: String, detail: String) {
        self.viols += 1;
        self.rep.viol(Viol { prop, sig, detail, config: self.cfg.clone(), hist: self.hist, op: self.op, opdesc: self.desc.clone() });
    }
    pub fn ev(&mut self, c: &str) {
        self.rep.count(c);
        if let Some(i) = COLL_CLASSES.iter().position(|x| *x == c) {
            self.hit |= 1 << i;
        }
    }
    pub fn refused(&self) -> bool {
        self.mon.as_ref().map_or(false, |m| m.borrow().refused_in_op > 0)
    }
}

fn gen_index(rng: &mut Rng, len: usize) -> usize {
    match rng.weighted(&[30, 10, 10, 12, 6, 3, 6]) {
        0 => {
            if len == 0 {
                0
            } else {
                rng.below(len)
            }
        }
        1 => 0,
        2 => len.saturating_sub(1),
        3 => len,
        4 => len + 1,
        5 => usize::MAX,
        _ => rng.range(0, len + 2),
    }
}

fn gen_range(rng: &mut Rng, len: usize) -> (Bound<usize>, Bound<usize>) {
    let a = gen_index(rng, len);
    let b = gen_index(rng, len);
    let (a, b) = if rng.chance(4, 5) && a > b { (b, a) } else { (a, b) };
    let lo = match rng.below(4) {
        0 => Bound::Unbounded,
        1 => Bound::Excluded(a.wrapping_sub(1)),
        _ => Bound::Included(a),
    };
    let lo = if let Bound::Excluded(usize::MAX) = lo { Bound::Included(0) } else { lo };
    let hi = match rng.below(4) {
        0 => Bound::Unbounded,
        1 => Bound::Included(b),
        _ => Bound::Excluded(b),
    };
    (lo, hi)
}

fn vals<E: Elem>(s: &[E]) -> Vec<u32> {
    s.iter().map(|e| e.val()).collect()
}

fn model_do<R>(f: impl FnOnce() -> R) -> Result<R, ()> {
    catch_unwind(AssertUnwindSafe(f)).map_err(|_| ())
}

enum Real {
    Ok(Vec<u32>),
    /// a try_ method returned Err
    Err,
    Injected,
    AllocPanic,
    Panic(String),
}

fn real_do(f: impl FnOnce() -> Result<Vec<u32>, AllocError>) -> Real {
    match guarded(f) {
        Ok(Ok(v)) => Real::Ok(v),
        Ok(Err(_)) => Real::Err,
        Err(p) => match classify(&p) {
            PanicKind::Fuel => Real::Injected,
            PanicKind::AllocError => Real::AllocPanic,
            PanicKind::Msg(m) => Real::Panic(m),
            PanicKind::Injected => Real::Panic("injected exit".into()),
        },
    }
}

/// The invariants that must hold after *every* operation, whatever happened in it.
pub fn check_ledger<E: Elem>(v: &dyn VecCore<E>, ctx: &mut VCtx, held: &[u32]) {
    // an operation during which the base allocator refused memory answers to C07 ("nothing is leaked or double-dropped")
    let prop: &'static str = if ctx.refused() { "C07" } else { "C06" };
    let lv = tr::ledger_view();
    if !lv.double_drops.is_empty() {
        ctx.viol(prop, format!("value_dropped_twice:{}", v.family()), format!("ids {:?}", &lv.double_drops[..lv.double_drops.len().min(6)]));
    }
    if !lv.use_after_drop.is_empty() {
        ctx.viol(prop, format!("value_used_after_drop:{}", v.family()), format!("ids {:?}", &lv.use_after_drop[..lv.use_after_drop.len().min(6)]));
    }
    tr::clear_incidents();
    if E::TRACKED && !E::ZST {
        let mut in_coll: Vec<u32> = v.slice().iter().filter_map(|e| e.id()).collect();
        in_coll.extend_from_slice(held);
        in_coll.sort_unstable();
        if in_coll.windows(2).any(|w| w[0] == w[1]) {
            ctx.viol(prop, format!("value_owned_twice:{}", v.family()), format!("ids in collection {:?}", in_coll));
        }
        let live: Vec<u32> = lv.live_ids.iter().copied().filter(|i| !ctx.leaked.contains(i)).collect();
        let dead_in_coll: Vec<u32> = in_coll.iter().copied().filter(|i| !lv.live_ids.contains(i)).collect();
        if !dead_in_coll.is_empty() {
            ctx.viol(prop, format!("dropped_value_still_in_collection:{}", v.family()), format!("ids {:?}", dead_in_coll));
        }
        let lost: Vec<u32> = live.iter().copied().filter(|i| !in_coll.contains(i)).collect();
        if !lost.is_empty() {
            if lv.panicked_in_drop {
                // a panic out of a Drop implementation may lose values (documented): they are exempt from now on
                for i in &lost {
                    ctx.leaked.insert(*i);
                }
            } else {
                ctx.viol(prop, format!("value_lost:{}", v.family()), format!("ids {:?} are neither in the collection nor dropped", &lost[..lost.len().min(8)]));
                for i in &lost {
                    ctx.leaked.insert(*i);
                }
            }
        }
    } else if E::TRACKED && E::ZST {
        let expect = v.len() as i64 + held.len() as i64 + ctx.leaked_z;
        if lv.z_live != expect {
            if lv.z_live > expect && lv.panicked_in_drop {
                ctx.leaked_z += lv.z_live - expect;
            } else {
                ctx.viol(
                    prop,
                    format!("{}:{}", if lv.z_live < expect { "zst_value_dropped_twice" } else { "zst_value_lost" }, v.family()),
                    format!("live count {} but {} in the collection (+{} leaked)", lv.z_live, v.len(), ctx.leaked_z),
                );
                ctx.leaked_z += lv.z_live - expect;
            }
        }
    }
}

pub struct Anchor {
    pub addr: usize,
    pub cap: usize,
}

/// One generated operation.  Returns false when nothing could be done.
pub fn step<E: Elem>(v: &mut dyn VecCore<E>, model: &mut Vec<u32>, ctx: &mut VCtx) {
    let rev = v.is_rev();
    let fixed = v.is_fixed();
    let len = v.len();
    let cap0 = v.capacity();
    let anchor0 = v.anchor();
    let has_filter = v.filter().is_some();
    let has_grow = v.grow().is_some();
    let m = E::MODULUS;
    let nv = |ctx: &mut VCtx| ctx.rng.below(m as usize) as u32;
    // choose an operation the family supports
    let mut w = [0u32; 51];
    w[..5].copy_from_slice(&[6, 6, 4, 4, 1]);
    if has_filter {
        for (i, x) in [(6, 4), (7, 2), (8, 2), (9, 2), (10, 7), (11, 4)] {
            w[i] = x;
        }
    }
    if has_grow {
        for (i, x) in [(12, 14), (13, 6), (14, 3), (15, 8), (16, 4), (17, 3), (18, 3), (19, 2), (20, 3), (21, 5), (22, 3), (23, 3), (24, 3), (25, 2), (26, 3), (27, 2), (28, 2), (29, 3), (30, 3), (31, 2), (32, 2)] {
            w[i] = x;
        }
        // second generation: the remaining growth entry points
        for (i, x) in [(33, 2), (34, 3), (35, 2), (36, 2), (37, 2), (38, 3), (39, 2), (40, 2), (41, 2), (42, 2), (43, 2), (44, 2), (45, 2), (46, 3), (47, 4), (48, 3), (49, 8), (50, 4)] {
            w[i] = x;
        }
        if fixed {
            w[46] = 0;
        }
    }
    let op = ctx.rng.weighted(&w);
    let mut grows = false;
    let mut added = 0usize;
    let mut held: Vec<u32> = Vec::new();
    let mut forgot: Option<(usize, Vec<u32>)> = None;
    let mut exact_reserve = None;
    let mut shrink_floor: Option<usize> = None;
    let model_before = model.clone();
    let mut partial_ok: Option<Vec<u32>> = None;
    // run on the real collection and on the model
    let (real, modl): (Real, Result<Vec<u32>, ()>) = match op {
        0 => {
            ctx.begin("pop".into());
            (real_do(|| Ok(v.pop().map(|e| e.val()).into_iter().collect())), model_do(|| if rev { if model.is_empty() { vec![] } else { vec![model.remove(0)] } } else { model.pop().into_iter().collect() }))
        }
        1 => {
            let i = gen_index(&mut ctx.rng, len);
            ctx.begin(format!("remove {i}"));
            (real_do(|| Ok(vec![v.remove(i).val()])), model_do(|| vec![model.remove(i)]))
        }
        2 => {
            let i = gen_index(&mut ctx.rng, len);
            ctx.begin(format!("swap_remove {i}"));
            (
                real_do(|| Ok(vec![v.swap_remove(i).val()])),
                model_do(|| {
                    if rev {
                        let _ = &model[i];
                        model.swap(0, i);
                        vec![model.remove(0)]
                    } else {
                        vec![model.swap_remove(i)]
                    }
                }),
            )
        }
        3 => {
            let n = gen_index(&mut ctx.rng, len);
            ctx.begin(format!("truncate {n}"));
            (
                real_do(|| {
                    v.truncate(n);
                    Ok(vec![])
                }),
                model_do(|| {
                    if rev {
                        if n < model.len() {
                            let k = model.len() - n;
                            model.drain(..k);
                        }
                    } else {
                        model.truncate(n);
                    }
                    vec![]
                }),
            )
        }
        4 => {
            ctx.begin("clear".into());
            (
                real_do(|| {
                    v.clear();
                    Ok(vec![])
                }),
                model_do(|| {
                    model.clear();
                    vec![]
                }),
            )
        }
        6 => {
            let k = ctx.rng.range(2, 4) as u32;
            ctx.begin(format!("retain val%{k}!=0 (mutating kept elements' view)"));
            ctx.ev("retain");
            let f = v.filter().unwrap();
            (
                real_do(|| {
                    f.retain(&mut |e| {
                        tr::burn();
                        e.val() % k != 0
                    });
                    Ok(vec![])
                }),
                model_do(|| {
                    model.retain(|x| x % k != 0);
                    vec![]
                }),
            )
        }
        7 => {
            ctx.begin("dedup".into());
            ctx.ev("dedup");
            let f = v.filter().unwrap();
            (
                real_do(|| {
                    f.dedup();
                    Ok(vec![])
                }),
                model_do(|| {
                    model.dedup();
                    vec![]
                }),
            )
        }
        8 => {
            // same_bucket(current, last retained): an equivalence, a non-transitive relation, an asymmetric one
            let kind = ctx.rng.below(4);
            let same = move |a: u32, b: u32| match kind {
                0 => a / 2 == b / 2,
                1 => a.abs_diff(b) <= 1,
                2 => a > b,
                _ => a <= b.wrapping_add(2),
            };
            ctx.begin(format!("dedup_by {}", ["val/2 equal", "|a-b|<=1", "a>b", "a<=b+2"][kind]));
            ctx.ev("dedup");
            ctx.rep.count(if kind == 0 { "dedup_by_equivalence" } else { "dedup_by_non_equivalence" });
            let f = v.filter().unwrap();
            (
                real_do(|| {
                    f.dedup_by(&mut |a, b| {
                        tr::burn();
                        same(a.val(), b.val())
                    });
                    Ok(vec![])
                }),
                model_do(|| {
                    model.dedup_by(|a, b| same(*a, *b));
                    vec![]
                }),
            )
        }
        9 => {
            ctx.begin("dedup_by_key val%3".into());
            ctx.ev("dedup");
            let f = v.filter().unwrap();
            (
                real_do(|| {
                    f.dedup_by_key(&mut |a| {
                        tr::burn();
                        a.val() % 3
                    });
                    Ok(vec![])
                }),
                model_do(|| {
                    model.dedup_by_key(|a| *a % 3);
                    vec![]
                }),
            )
        }
        10 => {
            let r = gen_range(&mut ctx.rng, len);
            let n = ctx.rng.range(0, len + 1);
            let script: Vec<bool> = (0..n).map(|_| ctx.rng.chance(1, 3)).collect();
            let end = *ctx.rng.pick(&[DrainEnd::Drop, DrainEnd::Drop, DrainEnd::KeepRest, DrainEnd::Forget]);
            ctx.begin(format!("drain {r:?} pulling {} ({} from the back) then {end:?}", script.len(), script.iter().filter(|b| **b).count()));
            // ids from the range start on: a forgotten drain leaks whatever it has not yielded
            let ids_before: Vec<Option<u32>> = v.slice().iter().map(|e| e.id()).collect();
            let f = v.filter().unwrap();
            let script2 = script.clone();
            let real = real_do(|| Ok(f.drain_script(r, &script2, end).iter().map(|e| e.val()).collect()));
            let modl = model_do(|| {
                let rr = std::slice::range(r, ..model.len());
                let mut out = Vec::new();
                let mut mid: std::collections::VecDeque<u32> = model[rr.clone()].iter().copied().collect();
                for &back in &script {
                    let x = if back { mid.pop_back() } else { mid.pop_front() };
                    match x {
                        Some(x) => out.push(x),
                        None => break,
                    }
                }
                match end {
                    DrainEnd::Drop => {
                        model.drain(rr);
                    }
                    DrainEnd::KeepRest => {
                        model.splice(rr, mid.into_iter());
                    }
                    DrainEnd::Forget => {
                        model.truncate(rr.start);
                    }
                }
                out
            });
            if let (Real::Ok(_), DrainEnd::Forget) = (&real, end) {
                if let Ok(rr) = model_do(|| std::slice::range(r, ..len)) {
                    forgot = Some((rr.start, ids_before.iter().skip(rr.start).filter_map(|x| *x).collect()));
                }
                ctx.ev("drain_forgotten");
            } else if end == DrainEnd::KeepRest {
                ctx.ev("drain_keep_rest");
            } else if !script.is_empty() {
                ctx.ev("drain_partial");
            }
            (real, modl)
        }
        11 => {
            let k = ctx.rng.range(2, 3) as u32;
            let take = ctx.rng.range(0, len + 1);
            ctx.begin(format!("extract_if val%{k}==0 pulling {take}"));
            ctx.ev("extract_if_partial");
            let f = v.filter().unwrap();
            (
                real_do(|| {
                    Ok(f.extract_if_script(
                        &mut |e| {
                            tr::burn();
                            e.val() % k == 0
                        },
                        take,
                    )
                    .iter()
                    .map(|e| e.val())
                    .collect())
                }),
                model_do(|| {
                    // std semantics: elements visited so far that match are removed; the rest stays
                    let mut out = Vec::new();
                    let mut i = 0;
                    while out.len() < take && i < model.len() {
                        if model[i] % k == 0 {
                            out.push(model.remove(i));
                        } else {
                            i += 1;
                        }
                    }
                    out
                }),
            )
        }
        33..=37 => {
            let x = nv(ctx);
            grows = true;
            added = 1;
            ctx.begin(format!("{} {x}", ["try_push_with", "push_mut", "try_push_mut", "push_mut_with", "try_push_mut_with"][op - 33]));
            let g = v.grow().unwrap();
            let pair = |(val, idx): (u32, usize)| vec![val, idx as u32];
            (
                real_do(|| match op {
                    33 => g
                        .try_push_with(&mut || {
                            tr::burn();
                            E::make(x)
                        })
                        .map(|_| vec![]),
                    34 => Ok(pair(g.push_mut(E::make(x)))),
                    35 => g.try_push_mut(E::make(x)).map(pair),
                    36 => Ok(pair(g.push_mut_with(&mut || {
                        tr::burn();
                        E::make(x)
                    }))),
                    _ => g
                        .try_push_mut_with(&mut || {
                            tr::burn();
                            E::make(x)
                        })
                        .map(pair),
                }),
                model_do(|| {
                    let idx = if E::ZST { usize::MAX } else if rev { 0 } else { model.len() };
                    if rev {
                        model.insert(0, x % m)
                    } else {
                        model.push(x % m)
                    }
                    if op == 33 { vec![] } else { vec![x % m, idx as u32] }
                }),
            )
        }
        38 | 39 => {
            let x = nv(ctx);
            let i = gen_index(&mut ctx.rng, len);
            grows = true;
            added = 1;
            ctx.begin(format!("{} {i} {x}", if op == 38 { "insert_mut" } else { "try_insert_mut" }));
            let g = v.grow().unwrap();
            let pair = |(val, idx): (u32, usize)| vec![val, idx as u32];
            (
                real_do(|| if op == 38 { Ok(pair(g.insert_mut(i, E::make(x)))) } else { g.try_insert_mut(i, E::make(x)).map(pair) }),
                model_do(|| {
                    model.insert(i, x % m);
                    vec![x % m, if E::ZST { u32::MAX } else { i as u32 }]
                }),
            )
        }
        12 | 13 | 14 => {
            let x = nv(ctx);
            grows = true;
            added = 1;
            ctx.begin(format!("{} {x}", ["push", "try_push", "push_with"][op - 12]));
            let g = v.grow().unwrap();
            (
                real_do(|| match op {
                    12 => {
                        g.push(E::make(x));
                        Ok(vec![])
                    }
                    13 => g.try_push(E::make(x)).map(|_| vec![]),
                    _ => {
                        g.push_with(&mut || {
                            tr::burn();
                            E::make(x)
                        });
                        Ok(vec![])
                    }
                }),
                model_do(|| {
                    if rev {
                        model.insert(0, x % m)
                    } else {
                        model.push(x % m)
                    }
                    vec![]
                }),
            )
        }
        15 | 16 => {
            let x = nv(ctx);
            let i = gen_index(&mut ctx.rng, len);
            grows = true;
            added = 1;
            ctx.begin(format!("{} {i} {x}", if op == 15 { "insert" } else { "try_insert" }));
            let g = v.grow().unwrap();
            (
                real_do(|| {
                    if op == 15 {
                        g.insert(i, E::make(x));
                        Ok(vec![])
                    } else {
                        g.try_insert(i, E::make(x)).map(|_| vec![])
                    }
                }),
                model_do(|| {
                    model.insert(i, x % m);
                    vec![]
                }),
            )
        }
        17 => {
            let k = ctx.rng.range(1, 2) as u32;
            ctx.begin(format!("pop_if val%2=={k}"));
            let g = v.grow().unwrap();
            (
                real_do(|| {
                    Ok(g.pop_if(&mut |e| {
                        tr::burn();
                        e.val() % 2 == k % 2
                    })
                    .map(|e| e.val())
                    .into_iter()
                    .collect())
                }),
                model_do(|| {
                    let cand = if rev { model.first().copied() } else { model.last().copied() };
                    match cand {
                        Some(c) if c % 2 == k % 2 => {
                            if rev {
                                vec![model.remove(0)]
                            } else {
                                vec![model.pop().unwrap()]
                            }
                        }
                        _ => vec![],
                    }
                }),
            )
        }
        18 | 19 | 20 | 43 => {
            let x = nv(ctx);
            let n = match ctx.rng.below(4) {
                0 => gen_index(&mut ctx.rng, len).min(len + 40),
                1 => len + ctx.rng.range(0, 30),
                2 => cap0.unwrap_or(len).min(len + 200),
                _ => ctx.rng.range(0, len + 10),
            };
            grows = n > len;
            added = n.saturating_sub(len);
            ctx.begin(format!("{} {n} {x}", if op == 43 { "try_resize_with" } else { ["resize", "try_resize", "resize_with"][op - 18] }));
            let g = v.grow().unwrap();
            let mut counter = x;
            (
                real_do(|| match op {
                    18 => {
                        g.resize(n, E::make(x));
                        Ok(vec![])
                    }
                    19 => g.try_resize(n, E::make(x)).map(|_| vec![]),
                    43 => g
                        .try_resize_with(n, &mut || {
                            tr::burn();
                            counter = counter.wrapping_add(1);
                            E::make(counter)
                        })
                        .map(|_| vec![]),
                    _ => {
                        g.resize_with(n, &mut || {
                            tr::burn();
                            counter = counter.wrapping_add(1);
                            E::make(counter)
                        });
                        Ok(vec![])
                    }
                }),
                model_do(|| {
                    let mut c = x;
                    if n <= model.len() {
                        if rev {
                            let k = model.len() - n;
                            model.drain(..k);
                        } else {
                            model.truncate(n);
                        }
                    } else {
                        for _ in 0..n - model.len() {
                            let val = if op == 20 || op == 43 {
                                c = c.wrapping_add(1);
                                c % m
                            } else {
                                x % m
                            };
                            if rev {
                                model.insert(0, val)
                            } else {
                                model.push(val)
                            }
                        }
                    }
                    vec![]
                }),
            )
        }
        21 | 22 | 23 | 26 | 27 | 40 => {
            let n = ctx.rng.range(0, 20);
            let xs: Vec<u32> = (0..n).map(|_| nv(ctx)).collect();
            grows = true;
            added = n;
            let name = match op {
                21 => "extend_from_slice_clone",
                22 => "try_extend_from_slice_clone",
                23 => "extend_from_slice_copy",
                26 => "append(Vec)",
                40 => "try_extend_from_slice_copy",
                _ => "try_append(Vec)",
            };
            ctx.begin(format!("{name} {n} elements"));
            let src: Vec<E> = xs.iter().map(|x| E::make(*x)).collect();
            let g = v.grow().unwrap();
            (
                real_do(|| match op {
                    21 => {
                        g.extend_from_slice_clone(&src);
                        Ok(vec![])
                    }
                    22 => g.try_extend_from_slice_clone(&src).map(|_| vec![]),
                    23 => {
                        g.extend_from_slice_copy(&src);
                        Ok(vec![])
                    }
                    26 => {
                        g.append_vec(src);
                        Ok(vec![])
                    }
                    40 => g.try_extend_from_slice_copy(&src).map(|_| vec![]),
                    _ => g.try_append_vec(src).map(|_| vec![]),
                }),
                model_do(|| {
                    let ys: Vec<u32> = xs.iter().map(|x| x % m).collect();
                    if rev {
                        model.splice(0..0, ys);
                    } else {
                        model.extend(ys);
                    }
                    vec![]
                }),
            )
        }
        24 | 25 | 41 | 42 => {
            let r = gen_range(&mut ctx.rng, len);
            grows = true;
            added = model_do(|| std::slice::range(r, ..len).len()).unwrap_or(0);
            ctx.begin(format!("{}extend_from_within_{} {r:?}", if op > 40 { "try_" } else { "" }, if op == 24 || op == 42 { "clone" } else { "copy" }));
            let g = v.grow().unwrap();
            (
                real_do(|| {
                    match op {
                        24 => g.extend_from_within_clone(r),
                        25 => g.extend_from_within_copy(r),
                        41 => g.try_extend_from_within_copy(r)?,
                        _ => g.try_extend_from_within_clone(r)?,
                    }
                    Ok(vec![])
                }),
                model_do(|| {
                    let rr = std::slice::range(r, ..model.len());
                    let ys: Vec<u32> = model[rr].to_vec();
                    if rev {
                        model.splice(0..0, ys);
                    } else {
                        model.extend(ys);
                    }
                    vec![]
                }),
            )
        }
        28 => {
            let xs = [nv(ctx), nv(ctx), nv(ctx)];
            grows = true;
            added = 3;
            ctx.begin("append([T;3])".into());
            let g = v.grow().unwrap();
            (
                real_do(|| {
                    g.append_array3([E::make(xs[0]), E::make(xs[1]), E::make(xs[2])]);
                    Ok(vec![])
                }),
                model_do(|| {
                    let ys = xs.map(|x| x % m);
                    if rev {
                        model.splice(0..0, ys);
                    } else {
                        model.extend(ys);
                    }
                    vec![]
                }),
            )
        }
        29 | 30 | 31 | 44 => {
            let n = match ctx.rng.below(5) {
                0 => 0,
                1 => ctx.rng.range(1, 40),
                2 => ctx.rng.range(40, 600),
                3 => usize::MAX - ctx.rng.range(0, 3),
                _ => (isize::MAX as usize) / size_of::<E>().max(1) + ctx.rng.range(0, 3),
            };
            ctx.begin(format!("{} {n}", if op == 44 { "reserve_exact" } else { ["reserve", "try_reserve", "try_reserve_exact"][op - 29] }));
            grows = true;
            added = n;
            let g = v.grow().unwrap();
            let r = real_do(|| match op {
                29 => {
                    g.reserve(n);
                    Ok(vec![])
                }
                30 => g.try_reserve(n).map(|_| vec![]),
                44 => {
                    if !g.reserve_exact(n) {
                        g.reserve(n);
                    }
                    Ok(vec![])
                }
                _ => match g.try_reserve_exact(n) {
                    Some(r) => r.map(|_| vec![]),
                    None => g.try_reserve(n).map(|_| vec![]),
                },
            });
            exact_reserve = Some(n);
            (r, Ok(vec![]))
        }
        32 => {
            ctx.begin("shrink_to_fit".into());
            let g = v.grow().unwrap();
            (
                real_do(|| {
                    g.shrink_to_fit();
                    Ok(vec![])
                }),
                Ok(vec![]),
            )
        }
        45 => {
            let n = match ctx.rng.below(3) {
                0 => 0,
                1 => ctx.rng.range(0, len + 1),
                _ => ctx.rng.range(len, cap0.unwrap_or(len).min(len + 300) + 2),
            };
            ctx.begin(format!("shrink_to {n}"));
            shrink_floor = Some(n);
            let g = v.grow().unwrap();
            (
                real_do(|| {
                    if !g.shrink_to(n) {
                        g.shrink_to_fit();
                    }
                    Ok(vec![])
                }),
                Ok(vec![]),
            )
        }
        46 => {
            // write into the spare capacity, then set_len
            let room = cap0.map_or(0, |c| c - len).min(6);
            let k = ctx.rng.range(0, room);
            let xs: Vec<u32> = (0..k).map(|_| nv(ctx) % m).collect();
            let via_split = ctx.rng.bool();
            ctx.begin(format!("{} + set_len (+{k})", if via_split { "split_at_spare_mut" } else { "spare_capacity_mut" }));
            added = k;
            let src: Vec<E> = xs.iter().map(|x| E::make(*x)).collect();
            let expect = model.clone();
            let g = v.grow().unwrap();
            (
                real_do(|| Ok(vec![g.spare_fill(src, via_split, &expect) as u32])),
                model_do(|| {
                    if rev {
                        model.splice(0..0, xs.iter().copied());
                    } else {
                        model.extend(xs.iter().copied());
                    }
                    vec![1]
                }),
            )
        }
        47 | 48 => {
            let n = ctx.rng.range(0, 12);
            let xs: Vec<u32> = (0..n).map(|_| nv(ctx) % m).collect();
            let hint = *ctx.rng.pick(&[n, n, 0, n / 2, n + 3]);
            grows = true;
            added = n.max(hint);
            if hint < n {
                // element-wise growth: a refusal may leave a prefix of the new elements behind
                partial_ok = Some(xs.clone());
            }
            ctx.begin(format!("Extend<{}> {n} elements, size hint {hint}", if op == 47 { "T" } else { "&T" }));
            let src: Vec<E> = xs.iter().map(|x| E::make(*x)).collect();
            let g = v.grow().unwrap();
            (
                real_do(|| {
                    g.extend_iter(src, op == 48, hint);
                    Ok(vec![])
                }),
                model_do(|| {
                    for x in &xs {
                        if rev {
                            model.insert(0, *x)
                        } else {
                            model.push(*x)
                        }
                    }
                    vec![]
                }),
            )
        }
        49 | 50 => {
            let kind = ctx.rng.below(APPEND_KINDS.len());
            let n = if kind >= 12 { 3 } else { ctx.rng.range(0, 10) };
            let xs: Vec<u32> = (0..n).map(|_| nv(ctx) % m).collect();
            let iter_kind = (6..=9).contains(&kind);
            let (k, j) = if iter_kind { (ctx.rng.range(0, 3), ctx.rng.range(0, 3)) } else { (0, 0) };
            let k2 = k.min(n);
            let j2 = j.min(n - k2);
            let ys: Vec<u32> = xs[k2..n - j2].to_vec();
            grows = true;
            added = ys.len();
            ctx.begin(format!("{}append({}) of {n} elements after pulling {k2} front / {j2} back", if op == 50 { "try_" } else { "" }, APPEND_KINDS[kind]));
            ctx.rep.count(&format!("append_src:{}", APPEND_KINDS[kind]));
            let src: Vec<E> = xs.iter().map(|x| E::make(*x)).collect();
            let g = v.grow().unwrap();
            (
                real_do(|| g.append_src(kind, src, k, j, op == 50).map(|_| vec![])),
                model_do(|| {
                    if rev {
                        model.splice(0..0, ys.iter().copied());
                    } else {
                        model.extend(ys.iter().copied());
                    }
                    vec![]
                }),
            )
        }
        _ => return,
    };
    let _ = &mut held;
    let refused = ctx.refused();
    let full = fixed && grows && cap0.map_or(false, |c| len.checked_add(added).map_or(true, |t| t > c));
    let is_try = matches!(op, 13 | 16 | 19 | 22 | 27 | 30 | 31 | 33 | 35 | 37 | 39 | 40 | 41 | 42 | 43 | 50);
    let mut resync = false;
    match (real, modl) {
        (Real::Injected, _) => {
            ctx.injected += 1;
            let in_drop = tr::ledger_view().panicked_in_drop;
            ctx.ev(if in_drop { "panic_injected_in_drop" } else { "panic_injected" });
            resync = true;
        }
        (Real::Ok(r), Ok(mr)) => {
            if refused && grows && !E::ZST {
                ctx.viol("C07", format!("ok_after_refusal:{}", v.family()), format!("{} succeeded although the base allocator refused memory", ctx.desc));
            }
            if full {
                ctx.viol("C08", "fixed_vector_accepted_more_than_capacity".into(), format!("len {len} + {added} > cap {:?}", cap0));
            }
            if r != mr {
                ctx.viol("C08", format!("returned_value_differs:{}:{}", v.family(), opname(&ctx.desc)), format!("real {r:?} model {mr:?}"));
            }
            if let Some((start, ids)) = forgot {
                // everything from the range start on that was not handed out is leaked by design
                let _ = start;
                let still: BTreeSet<u32> = v.slice().iter().filter_map(|e| e.id()).collect();
                let lv = tr::ledger_view();
                for i in ids {
                    if !still.contains(&i) && lv.live_ids.contains(&i) {
                        ctx.leaked.insert(i);
                    }
                }
                if E::TRACKED && E::ZST {
                    let lvz = tr::ledger_view().z_live;
                    ctx.leaked_z = lvz - v.len() as i64;
                }
            }
            if let Some(n) = exact_reserve {
                if let Some(c) = v.capacity() {
                    if !fixed && c < len.saturating_add(n) {
                        ctx.viol("C08", format!("reserve_promise_not_kept:{}", v.family()), format!("len {len} + {n} > capacity {c}"));
                    }
                }
            }
        }
        (Real::Ok(r), Err(())) => {
            ctx.viol("C08", format!("no_panic_where_std_panics:{}:{}", v.family(), opname(&ctx.desc)), format!("returned {r:?}"));
            resync = true;
        }
        (Real::Panic(msg), Err(())) => {
            let _ = msg;
            ctx.ev("panic_matched_model");
        }
        (Real::Panic(msg), Ok(_)) => {
            if full && (msg.contains("fixed size vector") || msg.contains("does not have space")) {
                ctx.ev("fixed_full_rejected");
            } else if msg == "capacity overflow" && exact_reserve.is_some() {
                ctx.rep.count("capacity_overflow_panic");
            } else if is_try {
                ctx.viol("C07", format!("try_method_panicked:{}:{}", v.family(), opname(&ctx.desc)), msg);
            } else {
                ctx.viol("C08", format!("panic_where_std_does_not:{}:{}:{}", v.family(), opname(&ctx.desc), msg_sig(&msg)), msg);
            }
            resync = true;
        }
        (Real::Err, m) => {
            // a try_ method reported failure: legitimate when full, refused, or unrepresentable
            let huge = exact_reserve.map_or(false, |n| n > (isize::MAX as usize) / size_of::<E>().max(1) / 2);
            if full {
                ctx.ev("fixed_full_rejected");
            } else if refused {
                ctx.ev("alloc_refused");
            } else if !huge && m.is_ok() {
                ctx.viol("C07", format!("try_method_failed_without_cause:{}:{}", v.family(), opname(&ctx.desc)), ctx.desc.clone());
            }
            resync = true;
            // C07: the collection still has its previous length and contents
            let now = vals(v.slice());
            if now != model_before && !partial_ok.as_ref().map_or(false, |xs| is_prefix_extension(&model_before, &now, xs, rev)) {
                ctx.viol("C07", format!("failed_operation_changed_collection:{}:{}", v.family(), opname(&ctx.desc)), format!("before {model_before:?} after {now:?}"));
            }
        }
        (Real::AllocPanic, _) => {
            if is_try {
                ctx.viol("C07", format!("try_method_panicked:{}:{}", v.family(), opname(&ctx.desc)), "allocation-error panic".into());
            } else if !refused {
                ctx.rep.count("alloc_panic_without_refusal");
            } else {
                ctx.ev("alloc_refused");
            }
            resync = true;
            let now = vals(v.slice());
            if now != model_before && !partial_ok.as_ref().map_or(false, |xs| is_prefix_extension(&model_before, &now, xs, rev)) {
                ctx.viol("C07", format!("failed_operation_changed_collection:{}:{}", v.family(), opname(&ctx.desc)), format!("before {model_before:?} after {now:?}"));
            }
        }
    }
    // state comparison
    let now = vals(v.slice());
    if resync {
        *model = now;
    } else if now != *model {
        ctx.viol("C08", format!("contents_differ:{}:{}", v.family(), opname(&ctx.desc)), format!("real {:?} model {:?}", &now[..now.len().min(24)], &model[..model.len().min(24)]));
        *model = now;
    }
    if v.len() != model.len() {
        ctx.viol("C08", format!("len_differs:{}", v.family()), format!("{} vs {}", v.len(), model.len()));
    }
    if let Some(c) = v.capacity() {
        if c < v.len() {
            ctx.viol("C08", format!("capacity_below_len:{}", v.family()), format!("{c} < {}", v.len()));
        }
        if E::ZST {
            if c != usize::MAX {
                ctx.viol("C08", format!("zst_capacity_not_unlimited:{}", v.family()), format!("{c}"));
            }
            ctx.ev("zst_capacity");
        } else if let Some(c0) = cap0 {
            // no reallocation while the promised capacity suffices
            let needs = if grows { len.saturating_add(added) } else { 0 };
            let is_shrink = op == 32 || op == 45;
            if let Some(n) = shrink_floor {
                if c < n.min(c0) {
                    ctx.viol("C08", format!("shrink_to_went_below_floor:{}", v.family()), format!("shrink_to {n}: capacity {c0} -> {c} (len {len})"));
                }
            }
            if needs <= c0 && !is_shrink && c0 > 0 && (v.anchor() != anchor0 || c != c0) && !(fixed && false) {
                ctx.viol("C08", format!("reallocated_although_capacity_sufficed:{}:{}", v.family(), opname(&ctx.desc)), format!("cap {c0}->{c} anchor {anchor0:#x}->{:#x} len {len}+{added}", v.anchor()));
            }
            if c != c0 || v.anchor() != anchor0 {
                ctx.ev(if v.anchor() != anchor0 { "grew_realloc" } else { "grew" });
            }
            if fixed && (c != c0 || v.anchor() != anchor0) {
                ctx.viol("C08", "fixed_vector_reallocated".into(), format!("cap {c0}->{c}"));
            }
        }
    }
    check_ledger(v, ctx, &held);
}

/// `now` is `before` plus a prefix of `xs` pushed one by one (prepended in reverse for the rev vector)
fn is_prefix_extension(before: &[u32], now: &[u32], xs: &[u32], rev: bool) -> bool {
    if now.len() < before.len() || now.len() - before.len() > xs.len() {
        return false;
    }
    let k = now.len() - before.len();
    if rev { now[k..] == *before && now[..k].iter().rev().eq(xs[..k].iter()) } else { now[..before.len()] == *before && now[before.len()..] == xs[..k] }
}

fn opname(desc: &str) -> String {
    desc.split_whitespace().next().unwrap_or("?").to_string()
}

