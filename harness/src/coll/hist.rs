//! One collection history: arena setup, creation of the collection, generated operations,
//! finalisation, teardown checks.

use super::families::HintIter;
use super::vecs::*;
use super::*;
use crate::arena::{PanicKind, classify, guarded};
use crate::monalloc::{FailPlan, MonHandle, MonState, Policy, Shared, set_current};
use crate::out::Report;
use crate::rng::{Rng, hash_str, mix};
use crate::tr::{self, Elem};
use bump_scope::settings::BumpAllocatorSettings;
use bump_scope::traits::*;
use bump_scope::{BaseAllocator, Bump, BumpBox, BumpScope, BumpVec, FixedBumpVec, MutBumpVec, MutBumpVecRev};
use std::alloc::Layout;
use std::cell::RefCell;
use std::collections::BTreeSet;
use std::rc::Rc;

#[derive(Clone, Copy, Debug, PartialEq, Eq)]
pub enum Fam {
    Boxed,
    Fixed,
    Vec,
    Mut,
    Rev,
    /// single boxes and uninit slices (`coll::boxes`)
    BoxMisc,
}
pub const FAMS: [Fam; 6] = [Fam::Boxed, Fam::Fixed, Fam::Vec, Fam::Mut, Fam::Rev, Fam::BoxMisc];

#[derive(Clone, Debug)]
pub struct CollParams {
    pub ops: usize,
    pub thick: bool,
    /// inject the callback panic at this callback index (None = no injection)
    pub fuel: Option<u64>,
    pub small: bool,
}

pub struct HistOut {
    pub callbacks: u64,
    pub base_calls: u64,
    pub viols: u32,
}

fn settings_name<S: BumpAllocatorSettings>() -> String {
    format!("{}{}", if S::UP { "U" } else { "D" }, S::MIN_ALIGN)
}

/// Puts the arena into a non-trivial state before the collection is created.
fn prepare<A, S>(bump: &mut Bump<A, S>, rng: &mut Rng) -> bool
where
    A: MonHandle + BaseAllocator<S::GuaranteedAllocated>,
    S: BumpAllocatorSettings,
{
    match rng.below(5) {
        0 => {}
        1 => {
            // partially used first chunk, odd position
            let _ = bump.try_allocate_layout(Layout::from_size_align(rng.range(1, 200), 1).unwrap());
        }
        2 | 3 => {
            // later chunks left over from a scope (the current chunk is the first one again)
            let cap = bump.stats().capacity().max(64);
            let n = rng.range(1, 2);
            bump.scoped(|s| {
                for i in 0..n {
                    let _ = s.try_allocate_layout(Layout::from_size_align(cap * (1 + i) + 8, 1).unwrap());
                }
            });
            let rem = bump.stats().remaining();
            let _ = rem;
            let cur_rem = bump.stats().current_chunk().map_or(0, |c| c.remaining());
            let take = cur_rem.saturating_sub(rng.range(0, 64));
            let _ = bump.try_allocate_layout(Layout::from_size_align(take, 1).unwrap());
        }
        _ => {
            let cur_rem = bump.stats().current_chunk().map_or(0, |c| c.remaining());
            let take = cur_rem.saturating_sub(rng.range(0, 40));
            let _ = bump.try_allocate_layout(Layout::from_size_align(take, 1).unwrap());
        }
    }
    true
}

fn pos_tuple<A, S>(s: bump_scope::stats::Stats<'_, A, S>) -> (Vec<(usize, usize)>, Option<usize>, usize)
where
    S: BumpAllocatorSettings,
{
    (
        s.small_to_big().map(|c| (c.chunk_start().addr().get(), c.bump_position().addr().get())).collect(),
        s.current_chunk().map(|c| c.chunk_start().addr().get()),
        s.allocated(),
    )
}

/// C15: positions of all chunks up to the one that was current at creation must not move.
fn check_positions<E: Elem>(v: &dyn VecCore<E>, ctx: &mut VCtx, p0: &(Vec<(usize, usize)>, Option<usize>, usize), when: &str) {
    let Some(now) = v.positions() else { return };
    let upto = p0.1.and_then(|c| p0.0.iter().position(|x| x.0 == c)).map_or(0, |i| i + 1);
    for (start, pos) in &p0.0[..upto] {
        match now.iter().find(|x| x.0 == *start) {
            Some((_, p)) if p == pos => {}
            Some((_, p)) => ctx.viol("C15", format!("bump_position_moved_while_{when}:{}", v.family()), format!("chunk {start:#x}: {pos:#x} -> {p:#x} ({})", ctx.desc)),
            None => ctx.viol("C15", format!("chunk_vanished_while_{when}:{}", v.family()), format!("chunk {start:#x}")),
        }
    }
    if now.len() > p0.0.len() {
        ctx.ev("mut_grew_other_chunk");
    }
}

pub fn run_history<A, S, E>(rep: &mut Report, p: &CollParams, fam: Fam, hist: u64, seed: u64, fail: FailPlan) -> HistOut
where
    A: MonHandle + BaseAllocator<S::GuaranteedAllocated>,
    S: BumpAllocatorSettings,
    E: Elem,
    for<'b> BumpBox<'b, [E]>: VecCore<E>,
    for<'b> FixedBumpVec<'b, E>: VecCore<E>,
    for<'b> BumpVec<E, &'b BumpScope<'b, A, S>>: VecCore<E>,
    for<'b> MutBumpVec<E, &'b mut BumpScope<'b, A, S>>: VecCore<E>,
    for<'b> MutBumpVecRev<E, &'b mut BumpScope<'b, A, S>>: VecCore<E>,
    for<'r, 'b> MutBumpVec<E, super::families::DynMut<'r, 'b>>: VecCore<E>,
    for<'r, 'b> MutBumpVecRev<E, super::families::DynMut<'r, 'b>>: VecCore<E>,
{
    let mut rng = Rng::new(seed);
    let mut policy = if p.thick { Policy::thick() } else { Policy::thin() };
    if p.thick {
        policy.overgrant = *rng.pick(&[crate::monalloc::Overgrant::Exact, crate::monalloc::Overgrant::Small, crate::monalloc::Overgrant::Random]);
    }
    let cfg = format!("{:?}<{}>/{}/{}", fam, E::NAME, settings_name::<S>(), A::NAME);
    let mon: Shared = Rc::new(RefCell::new(MonState::new(policy, FailPlan::default(), seed)));
    set_current(Some(mon.clone()));
    tr::reset_ledger();
    rep.histories += 1;
    let mut ctx = VCtx { rng, rep, cfg, hist, op: 0, desc: String::new(), mon: Some(mon.clone()), viols: 0, trace: Vec::new(), leaked: BTreeSet::new(), leaked_z: 0, injected: 0, hit: 0 };
    let r = guarded(|| body::<A, S, E>(&mut ctx, p, fam, fail));
    tr::set_fuel(None);
    if let Err(pl) = r {
        match classify(&pl) {
            PanicKind::Msg(m) => ctx.viol("C08", format!("unexpected_panic:{}", crate::arena::msg_sig(&m)), format!("{} :: {m}", ctx.desc)),
            k => ctx.viol("C06", format!("unexpected_panic:{k:?}"), ctx.desc.clone()),
        }
    }
    // teardown: every value dropped exactly once (explicit leak routes exempt)
    let lv = tr::ledger_view();
    if ctx.viols == 0 {
        if E::TRACKED && !E::ZST {
            let lost: Vec<u32> = lv.live_ids.iter().copied().filter(|i| !ctx.leaked.contains(i)).collect();
            if !lost.is_empty() {
                ctx.viol("C06", format!("value_never_dropped:{:?}", fam), format!("ids {:?} still alive after every owner is gone", &lost[..lost.len().min(8)]));
            }
        } else if E::TRACKED && lv.z_live != ctx.leaked_z {
            ctx.viol("C06", format!("zst_value_count_at_teardown:{:?}", fam), format!("{} live, {} leaked by explicit routes", lv.z_live, ctx.leaked_z));
        }
        if !lv.double_drops.is_empty() {
            ctx.viol("C06", format!("value_dropped_twice:{:?}", fam), format!("ids {:?}", lv.double_drops));
        }
        // nothing leaked from the base allocator, ledger clean
        let mut m = mon.borrow_mut();
        m.check_quiescent();
        let leaked: Vec<String> = m.live_grants().map(|g| format!("#{} {:?}", g.id, g.req)).collect();
        let probs: Vec<_> = m.problems.drain(..).collect();
        drop(m);
        if !leaked.is_empty() {
            ctx.viol("C07", "chunk_never_released".into(), leaked.join(", "));
        }
        for (sig, d) in probs {
            ctx.viol("C05", sig, d);
        }
    }
    set_current(None);
    let h = mix(&[hash_str(&ctx.cfg), hash_str(&ctx.trace.join(";"))]);
    if ctx.hit != 0 {
        ctx.rep.nontrivial.insert(h);
    }
    ctx.rep.states.insert(mix(&[hash_str(&ctx.cfg), ctx.hit]));
    if ctx.rep.samples.len() < 2 && ctx.trace.len() > 6 {
        let s = format!("[{} hist {hist} seed {seed}] {}", ctx.cfg, ctx.trace.iter().take(24).cloned().collect::<Vec<_>>().join(" ; "));
        ctx.rep.samples.push(s);
    }
    let base_calls = mon.borrow().alloc_calls;
    HistOut { callbacks: lv.callbacks, base_calls, viols: ctx.viols }
}

/// Creates a growable vector through one of its constructors (capacity, empty, from_elem, from an iterator with a
/// size hint of the history's choosing, from an exact-size iterator, from an owned slice; panicking or `try_`).
/// Evaluates to `(guarded result, initial model, constructor index)`.
macro_rules! construct {
    ($ctx:ident, $T:ident, $alloc:expr, $rev:expr, $cap:ident, $init:ident) => {{
        let ctor = $ctx.rng.weighted(&[6, 2, 1, 2, 3, 2, 2]);
        let try_ = $ctx.rng.bool();
        let n0 = $init.len();
        let x0 = $init.first().copied().unwrap_or(0);
        let hint = *$ctx.rng.pick(&[n0, n0, 0, n0 / 2]);
        let modv: Vec<u32> = $init.iter().map(|x| x % E::MODULUS).collect();
        let (desc, model0): (String, Vec<u32>) = match ctor {
            0 => (format!("try_with_capacity_in({})", $cap), vec![]),
            1 => (format!("with_capacity_in({})", $cap), vec![]),
            2 => ("new_in".into(), vec![]),
            3 => (format!("{}from_elem_in({x0}, {n0})", if try_ { "try_" } else { "" }), vec![x0 % E::MODULUS; n0]),
            4 | 5 => (
                format!("{}from_iter{}_in({n0} elements, size hint {hint})", if try_ { "try_" } else { "" }, if ctor == 5 { "_exact" } else { "" }),
                if $rev { modv.iter().rev().copied().collect() } else { modv.clone() },
            ),
            _ => (format!("{}from_owned_slice_in(Vec of {n0})", if try_ { "try_" } else { "" }), modv.clone()),
        };
        $ctx.begin(format!("create {}<{}> via {desc}", stringify!($T), E::NAME));
        let mk = || -> Vec<E> { $init.iter().map(|x| E::make(*x)).collect() };
        let alloc = $alloc;
        let r = guarded(|| -> Result<_, AllocError> {
            Ok(match ctor {
                0 => $T::<E, _>::try_with_capacity_in($cap, alloc)?,
                1 => $T::<E, _>::with_capacity_in($cap, alloc),
                2 => $T::<E, _>::new_in(alloc),
                3 if try_ => $T::try_from_elem_in(E::make(x0), n0, alloc)?,
                3 => $T::from_elem_in(E::make(x0), n0, alloc),
                4 if try_ => $T::try_from_iter_in(HintIter { it: mk().into_iter(), hint }, alloc)?,
                4 => $T::from_iter_in(HintIter { it: mk().into_iter(), hint }, alloc),
                5 if try_ => $T::try_from_iter_exact_in(mk(), alloc)?,
                5 => $T::from_iter_exact_in(mk(), alloc),
                _ if try_ => $T::try_from_owned_slice_in(mk(), alloc)?,
                _ => $T::from_owned_slice_in(mk(), alloc),
            })
        });
        (r, model0, ctor)
    }};
}

/// what every constructor owes: the promised capacity and the modelled contents
fn check_created<E: Elem>(v: &dyn VecCore<E>, ctx: &mut VCtx, ctor: usize, cap: usize, model: &[u32]) {
    if ctor <= 1 && v.capacity().map_or(false, |c| c < cap) {
        ctx.viol("C08", format!("with_capacity_promise_not_kept:{}", v.family()), format!("asked {cap} got {:?}", v.capacity()));
    }
    let now: Vec<u32> = v.slice().iter().map(|e| e.val()).collect();
    if now != model {
        ctx.viol("C08", format!("constructed_contents_differ:{}", v.family()), format!("{} :: real {:?} model {:?}", ctx.desc, &now[..now.len().min(24)], &model[..model.len().min(24)]));
    }
    if v.capacity().map_or(false, |c| c < now.len()) {
        ctx.viol("C08", format!("capacity_below_len:{}", v.family()), format!("{:?} < {}", v.capacity(), now.len()));
    }
    ctx.rep.count(&format!("ctor:{ctor}"));
}

fn run_ops<E: Elem>(v: &mut dyn VecCore<E>, model: &mut Vec<u32>, ctx: &mut VCtx, n: usize, p0: Option<&(Vec<(usize, usize)>, Option<usize>, usize)>) {
    for _ in 0..n {
        if ctx.viols > 4 {
            break;
        }
        step(v, model, ctx);
        if let Some(p0) = p0 {
            check_positions(v, ctx, p0, "filling");
        }
    }
}

fn final_contents<E: Elem>(b: &BumpBox<'_, [E]>, model: &[u32], ctx: &mut VCtx, fam: &str) {
    let now: Vec<u32> = b.iter().map(|e| e.val()).collect();
    if now != model {
        ctx.viol("C15", format!("finalised_contents_differ:{fam}"), format!("real {:?} model {:?}", &now[..now.len().min(24)], &model[..model.len().min(24)]));
    }
}

/// A consuming operation (into_iter, map, map_in_place, splice) that still runs with panic fuel armed.
/// Afterwards its owner is gone: every value it held must have been dropped exactly once (values lost
/// by a panic that came out of a `Drop` are exempt).
fn consuming<E: Elem>(ctx: &mut VCtx, name: &str, expect: Vec<u32>, f: impl FnOnce() -> Vec<u32>) {
    ctx.begin(name.to_string());
    let r = guarded(f);
    tr::set_fuel(None);
    // values lost or dropped twice by an operation that failed because memory was refused are C07's business
    // ("nothing is leaked or double-dropped"), otherwise C06's
    let mut ledger_prop: &'static str = "C06";
    match r {
        Ok(got) => {
            if got != expect {
                ctx.viol("C08", format!("consuming_result_differs:{}", name.split_whitespace().next().unwrap_or("?")), format!("real {:?} expected {:?}", &got[..got.len().min(24)], &expect[..expect.len().min(24)]));
            }
            ctx.ev("finalised");
        }
        Err(p) => match classify(&p) {
            PanicKind::Fuel => ctx.ev("panic_injected"),
            // a consuming operation that allocates (map) reports a refusal by unwinding
            PanicKind::AllocError if ctx.refused() => {
                ledger_prop = "C07";
                ctx.ev("alloc_refused")
            }
            // an overflowing size computation is reported by unwinding as well (std::vec::Vec does the same here)
            // (for one-byte elements the absurd request is still a representable layout: the base allocator itself
            // cannot serve it and the method unwinds with the allocation error instead)
            PanicKind::AllocError if name.contains("lying size hint") => {
                ledger_prop = "C07";
                ctx.rep.count("capacity_overflow_unwound");
                ctx.ev("panic_matched_model")
            }
            PanicKind::Msg(m) if m.contains("capacity overflow") && name.contains("lying size hint") => {
                ledger_prop = "C07";
                ctx.rep.count("capacity_overflow_unwound");
                ctx.ev("panic_matched_model")
            }
            k => ctx.viol("C08", format!("unexpected_panic:{}", name.split_whitespace().next().unwrap_or("?")), format!("{k:?}")),
        },
    }
    let lv = tr::ledger_view();
    if !lv.double_drops.is_empty() {
        ctx.viol(ledger_prop, format!("value_dropped_twice:{}", name.split_whitespace().next().unwrap_or("?")), format!("ids {:?}", lv.double_drops));
    }
    if !lv.use_after_drop.is_empty() {
        ctx.viol(ledger_prop, format!("value_used_after_drop:{}", name.split_whitespace().next().unwrap_or("?")), format!("ids {:?}", lv.use_after_drop));
    }
    tr::clear_incidents();
    if E::TRACKED && !E::ZST {
        let lost: Vec<u32> = lv.live_ids.iter().copied().filter(|i| !ctx.leaked.contains(i)).collect();
        if !lost.is_empty() {
            if !lv.panicked_in_drop {
                ctx.viol(ledger_prop, format!("value_lost:{}", name.split_whitespace().next().unwrap_or("?")), format!("ids {:?} still alive after the owner is gone", &lost[..lost.len().min(8)]));
            }
            ctx.leaked.extend(lost);
        }
    } else if E::TRACKED {
        if lv.z_live != ctx.leaked_z {
            if !(lv.panicked_in_drop && lv.z_live > ctx.leaked_z) {
                ctx.viol(ledger_prop, format!("zst_value_count:{}", name.split_whitespace().next().unwrap_or("?")), format!("{} live after the owner is gone ({} leaked)", lv.z_live, ctx.leaked_z));
            }
            ctx.leaked_z = lv.z_live;
        }
    }
}

fn take_both_ends<E: Elem>(it: &mut (impl Iterator<Item = E> + DoubleEndedIterator), k: usize, j: usize) -> Vec<u32> {
    let mut out = Vec::new();
    for _ in 0..k {
        match it.next() {
            Some(e) => out.push(e.val()),
            None => break,
        }
        // consumer code that may panic while the iterator still owns the rest
        tr::burn();
    }
    let mut back = Vec::new();
    for _ in 0..j {
        match it.next_back() {
            Some(e) => back.push(e.val()),
            None => break,
        }
        tr::burn();
    }
    back.reverse();
    out.extend(back);
    out
}

fn expect_both_ends(model: &[u32], k: usize, j: usize) -> Vec<u32> {
    let k = k.min(model.len());
    let j = j.min(model.len() - k);
    let mut v = model[..k].to_vec();
    v.extend_from_slice(&model[model.len() - j..]);
    v
}

fn body<A, S, E>(ctx: &mut VCtx, p: &CollParams, fam: Fam, fail: FailPlan)
where
    A: MonHandle + BaseAllocator<S::GuaranteedAllocated>,
    S: BumpAllocatorSettings,
    E: Elem,
    for<'b> BumpBox<'b, [E]>: VecCore<E>,
    for<'b> FixedBumpVec<'b, E>: VecCore<E>,
    for<'b> BumpVec<E, &'b BumpScope<'b, A, S>>: VecCore<E>,
    for<'b> MutBumpVec<E, &'b mut BumpScope<'b, A, S>>: VecCore<E>,
    for<'b> MutBumpVecRev<E, &'b mut BumpScope<'b, A, S>>: VecCore<E>,
    for<'r, 'b> MutBumpVec<E, super::families::DynMut<'r, 'b>>: VecCore<E>,
    for<'r, 'b> MutBumpVecRev<E, super::families::DynMut<'r, 'b>>: VecCore<E>,
{
    let mon = ctx.mon.clone().unwrap();
    ctx.begin("init arena".into());
    // a not-guaranteed-allocated arena may still be without any chunk when the collection first needs memory
    let unallocated_start = !S::GUARANTEED_ALLOCATED && ctx.rng.chance(1, 2);
    let mut bump = if unallocated_start {
        ctx.rep.count("collection_on_unallocated_arena");
        Bump::<A, S>::default()
    } else {
        let Ok(mut bump) = Bump::<A, S>::try_new_in(A::with(&mon)) else { return };
        prepare(&mut bump, &mut ctx.rng);
        bump
    };
    // faults and fuel only start now: the subject is the collection
    mon.borrow_mut().fail = fail;
    let base0 = mon.borrow().alloc_calls;
    mon.borrow_mut().fail.fail_calls.iter_mut().for_each(|k| *k += base0);
    if let Some(k) = mon.borrow_mut().fail.fail_from.as_mut() {
        *k += base0;
    }
    let mut model: Vec<u32> = Vec::new();
    let n0 = ctx.rng.range(0, 12);
    let init: Vec<u32> = (0..n0).map(|_| ctx.rng.below(E::MODULUS as usize) as u32).collect();
    let cb0 = tr::callbacks();
    if let Some(f) = p.fuel {
        tr::set_fuel(Some(f));
    }
    let _ = cb0;
    let before = pos_tuple(bump.stats());
    match fam {
        Fam::BoxMisc => {
            super::boxes::run::<A, S, E>(ctx, &mut bump, p.ops.min(24));
            tr::set_fuel(None);
        }
        Fam::Boxed => {
            ctx.begin(format!("create BumpBox<[{}]> with {n0} elements", E::NAME));
            let mut i = 0;
            let r = guarded(|| {
                bump.try_alloc_slice_fill_with(n0, || {
                    i += 1;
                    E::make(init[i - 1])
                })
            });
            let Ok(Ok(mut b)) = r else {
                tr::set_fuel(None);
                return;
            };
            model = init.iter().map(|x| x % E::MODULUS).collect();
            run_ops::<E>(&mut b, &mut model, ctx, p.ops, None);
            let (k, j) = (ctx.rng.range(0, 4), ctx.rng.range(0, 4));
            match ctx.rng.below(3) {
                0 => consuming::<E>(ctx, "BumpBox<[T]>::into_iter partially consumed", expect_both_ends(&model, k, j), || {
                    let mut it = b.into_iter();
                    take_both_ends(&mut it, k, j)
                }),
                1 => consuming::<E>(ctx, "BumpBox<[T]>::map_in_place", model.iter().map(|x| x.wrapping_add(1) % E::MODULUS).collect(), || {
                    let m = b.map_in_place(|e| {
                        tr::burn();
                        E::make(e.val().wrapping_add(1))
                    });
                    m.iter().map(|e| e.val()).collect()
                }),
                _ => {
                    tr::set_fuel(None);
                    ctx.begin("drop BumpBox".into());
                    drop(b);
                }
            }
        }
        Fam::Fixed => {
            let cap = ctx.rng.range(0, 40);
            let ctor = ctx.rng.weighted(&[6, 2, 2, 2, 1, 1]);
            let try_ = ctx.rng.bool();
            let hint = *ctx.rng.pick(&[n0, n0, 0, n0 / 2]);
            ctx.begin(format!(
                "create FixedBumpVec<{}> via {}",
                E::NAME,
                match ctor {
                    0 => format!("try_with_capacity_in({cap})"),
                    1 => format!("with_capacity_in({cap})"),
                    2 => format!("{}from_iter_in({n0} elements, size hint {hint})", if try_ { "try_" } else { "" }),
                    3 => format!("{}from_iter_exact_in({n0} elements)", if try_ { "try_" } else { "" }),
                    4 => format!("from_init(boxed slice of {n0})"),
                    _ => format!("from_uninit(uninit slice of {cap})"),
                }
            ));
            let mk = || -> Vec<E> { init.iter().map(|x| E::make(*x)).collect() };
            let r = guarded(|| -> Result<FixedBumpVec<E>, AllocError> {
                Ok(match ctor {
                    0 => FixedBumpVec::try_with_capacity_in(cap, &bump)?,
                    1 => FixedBumpVec::with_capacity_in(cap, &bump),
                    2 if try_ => FixedBumpVec::try_from_iter_in(HintIter { it: mk().into_iter(), hint }, &bump)?,
                    2 => FixedBumpVec::from_iter_in(HintIter { it: mk().into_iter(), hint }, &bump),
                    3 if try_ => FixedBumpVec::try_from_iter_exact_in(mk(), &bump)?,
                    3 => FixedBumpVec::from_iter_exact_in(mk(), &bump),
                    4 => FixedBumpVec::from_init(bump.try_alloc_slice_move(mk())?),
                    _ => FixedBumpVec::from_uninit(bump.try_alloc_uninit_slice(cap)?),
                })
            });
            let Ok(Ok(mut v)) = r else {
                tr::set_fuel(None);
                return;
            };
            if (2..=4).contains(&ctor) {
                model = init.iter().map(|x| x % E::MODULUS).collect();
            }
            check_created::<E>(&v, ctx, if ctor == 5 { 0 } else { ctor }, cap, &model);
            run_ops::<E>(&mut v, &mut model, ctx, p.ops, None);
            let (k, j) = (ctx.rng.range(0, 4), ctx.rng.range(0, 4));
            let pick = ctx.rng.below(4);
            if pick == 0 {
                consuming::<E>(ctx, "FixedBumpVec::into_iter partially consumed", expect_both_ends(&model, k, j), || {
                    let mut it = v.into_iter();
                    take_both_ends(&mut it, k, j)
                });
            } else if pick == 1 {
                consuming::<E>(ctx, "FixedBumpVec::map_in_place", model.iter().map(|x| x.wrapping_add(1) % E::MODULUS).collect(), || {
                    let m = v.map_in_place(|e| {
                        tr::burn();
                        E::make(e.val().wrapping_add(1))
                    });
                    m.iter().map(|e| e.val()).collect()
                });
            } else if pick == 2 {
                tr::set_fuel(None);
                ctx.begin("FixedBumpVec::into_boxed_slice".into());
                let b = v.into_boxed_slice();
                final_contents(&b, &model, ctx, "FixedBumpVec");
                ctx.ev("finalised");
                drop(b);
            } else {
                tr::set_fuel(None);
                ctx.begin("drop FixedBumpVec".into());
                drop(v);
            }
        }
        Fam::Vec => {
            let cap = if ctx.rng.bool() { 0 } else { ctx.rng.range(1, 30) };
            let s = bump.as_scope();
            let (r, model0, ctor) = construct!(ctx, BumpVec, s, false, cap, init);
            let Ok(Ok(mut v)) = r else {
                tr::set_fuel(None);
                return;
            };
            model = model0;
            check_created::<E>(&v, ctx, ctor, cap, &model);
            run_ops::<E>(&mut v, &mut model, ctx, p.ops, None);
            let (k, j) = (ctx.rng.range(0, 4), ctx.rng.range(0, 4));
            let pick = ctx.rng.below(8);
            if pick >= 4 {
                match pick {
                    4 => consuming::<E>(ctx, "BumpVec::into_iter partially consumed", expect_both_ends(&model, k, j), || {
                        let mut it = v.into_iter();
                        take_both_ends(&mut it, k, j)
                    }),
                    5 => consuming::<E>(ctx, "BumpVec::map_in_place", model.iter().map(|x| x.wrapping_add(1) % E::MODULUS).collect(), || {
                        let m = v.map_in_place(|e| {
                            tr::burn();
                            E::make(e.val().wrapping_add(1))
                        });
                        m.iter().map(|e| e.val()).collect()
                    }),
                    6 if ctx.rng.bool() => consuming::<E>(ctx, "BumpVec::map to u32", model.clone(), || {
                        let m = v.map(|e| {
                            tr::burn();
                            e.val()
                        });
                        m.iter().copied().collect()
                    }),
                    6 => {
                        let expect = model.clone();
                        let failed = std::cell::Cell::new(false);
                        consuming::<E>(ctx, "BumpVec::try_map to u32", model.clone(), || {
                            match v.try_map(|e| {
                                tr::burn();
                                e.val()
                            }) {
                                Ok(m) => m.iter().copied().collect(),
                                Err(_) => {
                                    // the source vector and its elements are gone with the failed call
                                    failed.set(true);
                                    expect
                                }
                            }
                        });
                        if failed.get() {
                            if ctx.refused() {
                                ctx.ev("alloc_refused");
                            } else {
                                ctx.viol("C07", "try_method_failed_without_cause:BumpVec:try_map".into(), ctx.desc.clone());
                            }
                        }
                    }
                    _ => {
                        // splice: replace a range by new elements, dropping the iterator early or late
                        let len = model.len();
                        let a = ctx.rng.range(0, len);
                        let b = ctx.rng.range(a, len);
                        let n_new = ctx.rng.range(0, 5);
                        let news: Vec<u32> = (0..n_new).map(|_| ctx.rng.below(E::MODULUS as usize) as u32).collect();
                        let take = ctx.rng.range(0, b - a + 1);
                        let mut exp_model = model.clone();
                        let removed: Vec<u32> = exp_model.splice(a..b, news.iter().copied()).collect();
                        // `take` elements from the front of the removed range, then up to `take_back` from its back
                        let take_back = ctx.rng.range(0, 2).min(removed.len().saturating_sub(take.min(removed.len())));
                        let mut expect: Vec<u32> = removed.iter().copied().take(take).collect();
                        expect.extend(removed.iter().rev().copied().take(take_back));
                        expect.push(u32::MAX);
                        expect.extend(exp_model.iter().copied());
                        // one in four: the replacement iterator claims an absurd lower size bound, so making room for the
                        // tail overflows the capacity computation and the method unwinds with "capacity overflow"
                        // (not while a callback panic is armed: `Splice::drop` would then run during unwinding and its own
                        // "capacity overflow" panic would abort the process - as it would with std's Vec)
                        let lie = ctx.rng.chance(1, 4) && !tr::fuel_armed();
                        // (so large that the capacity computation fails for every element size before any allocation is tried)
                        let hint = if lie { usize::MAX - 8 } else { n_new };
                        consuming::<E>(ctx, &format!("BumpVec::splice {a}..{b} with {n_new} new{}, pulling {take} front / {take_back} back", if lie { " (lying size hint)" } else { "" }), expect, || {
                            let mut out: Vec<u32> = Vec::new();
                            {
                                let mut sp = v.splice(a..b, HintIter { it: news.iter().map(|x| E::make(*x)), hint });
                                for _ in 0..take {
                                    match sp.next() {
                                        Some(e) => out.push(e.val()),
                                        None => break,
                                    }
                                    tr::burn();
                                }
                                for _ in 0..take_back {
                                    match sp.next_back() {
                                        Some(e) => out.push(e.val()),
                                        None => break,
                                    }
                                    tr::burn();
                                }
                            }
                            out.push(u32::MAX);
                            out.extend(v.iter().map(|e| e.val()));
                            drop(v);
                            out
                        });
                    }
                }
                tr::set_fuel(None);
            } else {
            tr::set_fuel(None);
            match pick {
                0 => {
                    ctx.begin("BumpVec::into_boxed_slice".into());
                    let b = v.into_boxed_slice();
                    final_contents(&b, &model, ctx, "BumpVec");
                    ctx.ev("finalised");
                }
                1 => {
                    ctx.begin("BumpVec::into_fixed_vec -> into_vec -> push".into());
                    let f = v.into_fixed_vec();
                    let mut v2 = f.into_vec(s);
                    ctx.ev("conversion");
                    run_ops::<E>(&mut v2, &mut model, ctx, 4, None);
                }
                2 => {
                    ctx.begin("BumpVec::into_parts/from_parts round trip".into());
                    let (f, a) = v.into_parts();
                    let mut v2 = BumpVec::from_parts(f, a);
                    ctx.ev("conversion");
                    run_ops::<E>(&mut v2, &mut model, ctx, 4, None);
                }
                _ => {
                    ctx.begin("drop BumpVec".into());
                    drop(v);
                }
            }
            }
        }
        Fam::Mut | Fam::Rev => {
            let rev = fam == Fam::Rev;
            let cap = if ctx.rng.bool() { 0 } else { ctx.rng.range(1, 30) };
            let min_align = S::MIN_ALIGN;
            let up = S::UP;
            let finalise = ctx.rng.chance(2, 3);
            // one in three through `&mut dyn MutBumpAllocatorCoreScope`
            let via_dyn = ctx.rng.chance(2, 5);
            if via_dyn {
                ctx.rep.count("mut_collection_via_dyn");
            }
            let mut final_len = 0usize;
            let mut finalised = false;
            {
                let s = bump.as_mut_scope();
                macro_rules! go {
                    ($T:ident, $name:literal) => {{
                        if via_dyn {
                            let d: super::families::DynMut = s;
                            go!(@run $T, $name, d)
                        } else {
                            go!(@run $T, $name, s)
                        }
                    }};
                    (@run $T:ident, $name:literal, $s:ident) => {{
                        let (r, model0, ctor) = construct!(ctx, $T, $s, rev, cap, init);
                        let Ok(Ok(mut v)) = r else {
                            tr::set_fuel(None);
                            return;
                        };
                        model = model0;
                        check_created::<E>(&v, ctx, ctor, cap, &model);
                        check_positions::<E>(&v, ctx, &before, "creating");
                        run_ops::<E>(&mut v, &mut model, ctx, p.ops, Some(&before));
                        if finalise && !E::ZST && ctx.rng.chance(1, 3) {
                            // finalise a vector that is exactly full (its contents use up the prepared space completely)
                            let room = VecCore::<E>::capacity(&v).map_or(0, |c| c - VecCore::<E>::len(&v));
                            if room <= if cfg!(miri) { 64 } else { 1500 } {
                                ctx.begin(format!("fill the last {room} free slots"));
                                tr::set_fuel(None);
                                for _ in 0..room {
                                    let x = ctx.rng.below(E::MODULUS as usize) as u32;
                                    VecCore::<E>::grow(&mut v).unwrap().push(E::make(x));
                                    if rev {
                                        model.insert(0, x)
                                    } else {
                                        model.push(x)
                                    }
                                }
                                check_positions::<E>(&v, ctx, &before, "filling");
                                ctx.rep.count("finalised_exactly_full");
                            }
                        }
                        let (k, j) = (ctx.rng.range(0, 4), ctx.rng.range(0, 4));
                        if !finalise && ctx.rng.chance(1, 2) {
                            // consuming operations that leave the bump position alone: the iterator / mapped vector
                            // still sits in the free space and is dropped there
                            go!(@consume $T, v, k, j);
                            ctx.ev("mut_dropped_unfinalised");
                        } else if finalise {
                            tr::set_fuel(None);
                            ctx.begin(format!("{}::into_boxed_slice", $name));
                            final_len = v.len();
                            let b = v.into_boxed_slice();
                            final_contents(&b, &model, ctx, $name);
                            finalised = true;
                            ctx.ev(if rev { "commit_mut_rev" } else { "commit_mut" });
                            drop(b);
                        } else {
                            tr::set_fuel(None);
                            ctx.begin(format!("drop {} without finalising", $name));
                            drop(v);
                            ctx.ev("mut_dropped_unfinalised");
                        }
                    }};
                    (@consume MutBumpVec, $v:ident, $k:ident, $j:ident) => {
                        if ctx.rng.bool() {
                            consuming::<E>(ctx, "MutBumpVec::into_iter partially consumed", expect_both_ends(&model, $k, $j), || {
                                let mut it = $v.into_iter();
                                take_both_ends(&mut it, $k, $j)
                            });
                        } else {
                            consuming::<E>(ctx, "MutBumpVec::map_in_place", model.iter().map(|x| x.wrapping_add(1) % E::MODULUS).collect(), || {
                                let m = $v.map_in_place(|e| {
                                    tr::burn();
                                    E::make(e.val().wrapping_add(1))
                                });
                                m.iter().map(|e| e.val()).collect()
                            });
                        }
                    };
                    (@consume MutBumpVecRev, $v:ident, $k:ident, $j:ident) => {
                        consuming::<E>(ctx, "MutBumpVecRev::into_iter partially consumed", expect_both_ends(&model, $k, $j), || {
                            let mut it = $v.into_iter();
                            take_both_ends(&mut it, $k, $j)
                        });
                    };
                }
                if rev {
                    go!(MutBumpVecRev, "MutBumpVecRev")
                } else {
                    go!(MutBumpVec, "MutBumpVec")
                }
            }
            // C15: position after dropping unfinalised = before; after finalising = advanced by the contents (+ padding)
            let after = pos_tuple(bump.stats());
            let upto = before.1.and_then(|c| before.0.iter().position(|x| x.0 == c)).map_or(0, |i| i + 1);
            if !finalised {
                for (start, pos) in &before.0[..upto] {
                    if let Some((_, p2)) = after.0.iter().find(|x| x.0 == *start) {
                        if p2 != pos {
                            ctx.viol("C15", format!("bump_position_moved_by_unfinalised_collection:{:?}", fam), format!("chunk {start:#x}: {pos:#x} -> {p2:#x}"));
                        }
                    }
                }
            } else if !E::ZST {
                let bytes = final_len * size_of::<E>();
                let max = bytes + (align_of::<E>() - 1) + (min_align - 1);
                // same chunk: advance from the old position; other chunk: advance from that chunk's start
                let cur = after.1;
                if cur == before.1 && cur.is_some() {
                    let c = cur.unwrap();
                    let p_old = before.0.iter().find(|x| x.0 == c).unwrap().1;
                    let p_new = after.0.iter().find(|x| x.0 == c).unwrap().1;
                    let adv = if up { p_new.wrapping_sub(p_old) } else { p_old.wrapping_sub(p_new) };
                    if adv < bytes || adv > max {
                        ctx.viol("C15", format!("commit_advanced_position_wrongly:{:?}", fam), format!("advanced {adv} for {bytes} content bytes (max {max})"));
                    }
                } else {
                    // earlier chunks untouched
                    for (start, pos) in &before.0[..upto] {
                        if let Some((_, p2)) = after.0.iter().find(|x| x.0 == *start) {
                            if p2 != pos {
                                ctx.viol("C15", format!("old_chunk_position_moved_by_commit:{:?}", fam), format!("chunk {start:#x}: {pos:#x} -> {p2:#x}"));
                            }
                        }
                    }
                    if let Some(c) = bump.stats().current_chunk() {
                        let used = c.allocated();
                        if used < bytes || used > max {
                            ctx.viol("C15", format!("commit_in_new_chunk_used_wrong_amount:{:?}", fam), format!("{used} bytes used for {bytes} content bytes"));
                        }
                    }
                }
            }
        }
    }
    // the arena must still be coherent and usable (C07: keeps working after failures)
    mon.borrow_mut().fail = FailPlan::default();
    ctx.begin("post: arena still usable".into());
    {
        let s = crate::snap::snap(bump.stats(), bump.any_stats());
        let m = mon.borrow();
        let probs = crate::snap::walk(&s, &crate::snap::WalkCfg { up: S::UP, min_align: S::MIN_ALIGN, expect_empty: false }, Some(&m));
        drop(m);
        for (sig, d) in probs {
            ctx.viol("C10", sig, d);
        }
    }
    match guarded(|| bump.try_alloc(7u64).map(|b| *b)) {
        Ok(Ok(7)) => {}
        Ok(Ok(x)) => ctx.viol("C07", "arena_unusable_after_history".into(), format!("allocated value reads {x}")),
        Ok(Err(_)) => ctx.viol("C07", "arena_unusable_after_history".into(), "allocation failed without refusal".into()),
        Err(p) => ctx.viol("C07", "arena_unusable_after_history".into(), format!("{:?}", classify(&p))),
    }
    ctx.begin("drop Bump".into());
    drop(bump);
}
