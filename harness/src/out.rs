//! Result reporting: JSON lines on stdout (read by check.py), optional write-ahead op log on stderr.

use std::collections::{BTreeMap, BTreeSet};
use std::fmt::Write as _;

pub fn esc(s: &str) -> String {
    let mut o = String::with_capacity(s.len() + 2);
    for c in s.chars() {
        match c {
            '"' => o.push_str("\\\""),
            '\\' => o.push_str("\\\\"),
            '\n' => o.push_str("\\n"),
            '\r' => o.push_str("\\r"),
            '\t' => o.push_str("\\t"),
            c if (c as u32) < 0x20 => {
                let _ = write!(o, "\\u{:04x}", c as u32);
            }
            c => o.push(c),
        }
    }
    o
}

#[derive(Clone, Debug)]
pub struct Viol {
    pub prop: &'static str,
    /// stable signature: which oracle, which operation class (no addresses, no seeds)
    pub sig: String,
    pub detail: String,
    pub config: String,
    pub hist: u64,
    pub op: u64,
    pub opdesc: String,
}

#[derive(Default)]
pub struct Report {
    pub counters: BTreeMap<String, u64>,
    pub viols: Vec<Viol>,
    pub samples: Vec<String>,
    pub states: BTreeSet<u64>,
    pub nontrivial: BTreeSet<u64>,
    pub histories: u64,
    pub ops: u64,
    pub wal: bool,
    /// cap on violations recorded per run (the first ones are what matters)
    pub max_viols: usize,
}

impl Report {
    pub fn new(wal: bool) -> Self {
        Report { wal, max_viols: 40, ..Default::default() }
    }

    #[inline]
    pub fn count(&mut self, k: &str) {
        if let Some(v) = self.counters.get_mut(k) {
            *v += 1;
        } else {
            self.counters.insert(k.to_string(), 1);
        }
    }

    #[inline]
    pub fn add(&mut self, k: &str, n: u64) {
        *self.counters.entry(k.to_string()).or_insert(0) += n;
    }

    pub fn viol(&mut self, v: Viol) {
        if self.wal {
            eprintln!("VIOL {} {} :: {}", v.prop, v.sig, v.detail);
        }
        // de-duplicate by (prop, sig, config): keep first witness, count the rest
        let key = format!("viol:{}:{}", v.prop, v.sig);
        self.count(&key);
        if self.viols.len() < self.max_viols
            && !self.viols.iter().any(|w| w.prop == v.prop && w.sig == v.sig && w.config == v.config)
        {
            // printed at once: a later crash of the process must not swallow what was already observed
            println!(
                "{{\"t\":\"viol\",\"prop\":\"{}\",\"sig\":\"{}\",\"detail\":\"{}\",\"config\":\"{}\",\"hist\":{},\"op\":{},\"opdesc\":\"{}\"}}",
                v.prop,
                esc(&v.sig),
                esc(&v.detail),
                esc(&v.config),
                v.hist,
                v.op,
                esc(&v.opdesc)
            );
            use std::io::Write as _;
            let _ = std::io::stdout().flush();
            self.viols.push(v);
        }
    }

    pub fn emit(&self, extra: &str) {
        for s in &self.samples {
            println!("{{\"t\":\"sample\",\"text\":\"{}\"}}", esc(s));
        }
        let mut c = String::new();
        for (i, (k, v)) in self.counters.iter().enumerate() {
            if i > 0 {
                c.push(',');
            }
            let _ = write!(c, "\"{}\":{}", esc(k), v);
        }
        println!(
            "{{\"t\":\"stat\",\"histories\":{},\"ops\":{},\"states\":{},\"nontrivial\":{},\"counters\":{{{}}}{}}}",
            self.histories,
            self.ops,
            self.states.len(),
            self.nontrivial.len(),
            c,
            extra
        );
        // hashes of distinct non-trivial histories, so that the driver can count distinct across shards
        let mut h = String::new();
        for (i, x) in self.nontrivial.iter().enumerate() {
            if i > 0 {
                h.push(',');
            }
            let _ = write!(h, "\"{:x}\"", x);
            if i > 20000 {
                break;
            }
        }
        println!("{{\"t\":\"hashes\",\"nontrivial\":[{}]}}", h);
        println!("{{\"t\":\"done\"}}");
    }
}

/// `--key value` command line (also readable under Miri, which gets argv but no environment).
pub struct Args {
    kv: BTreeMap<String, String>,
}

impl Args {
    pub fn parse() -> Self {
        let mut kv = BTreeMap::new();
        let a: Vec<String> = std::env::args().skip(1).collect();
        let mut i = 0;
        while i < a.len() {
            if let Some(k) = a[i].strip_prefix("--") {
                if i + 1 < a.len() && !a[i + 1].starts_with("--") {
                    kv.insert(k.to_string(), a[i + 1].clone());
                    i += 2;
                } else {
                    kv.insert(k.to_string(), "1".to_string());
                    i += 1;
                }
            } else {
                i += 1;
            }
        }
        Args { kv }
    }
    pub fn u64(&self, k: &str, d: u64) -> u64 {
        self.kv.get(k).and_then(|v| v.parse().ok()).unwrap_or(d)
    }
    pub fn usize(&self, k: &str, d: usize) -> usize {
        self.u64(k, d as u64) as usize
    }
    pub fn str(&self, k: &str, d: &str) -> String {
        self.kv.get(k).cloned().unwrap_or_else(|| d.to_string())
    }
    pub fn flag(&self, k: &str) -> bool {
        self.kv.get(k).map(|v| v != "0").unwrap_or(false)
    }
    pub fn has(&self, k: &str) -> bool {
        self.kv.contains_key(k)
    }
}
