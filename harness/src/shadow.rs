//! Client-side shadow ledger of live blocks: validity, disjointness, pattern integrity, and
//! whole-chunk snapshots for the frame condition of grow/shrink.

use std::alloc::Layout;
use std::ptr::NonNull;

use crate::snap::{Snap, StatView};

pub const DIRTY_BYTE: u8 = 0xFA;

#[derive(Debug)]
pub struct Block {
    pub id: u32,
    pub ptr: NonNull<u8>,
    /// bytes the harness owns (and has patterned)
    pub len: usize,
    /// layout to use when handing the block back (size may be the requested or the returned size)
    pub layout: Layout,
    pub depth: u32,
    pub birth: u64,
    pub via: &'static str,
    /// expected contents
    pub expect: Vec<u8>,
    /// obtained through the allocator interface (zero-size blocks may sit at a chunk end)
    pub raw_api: bool,
    /// the harness only holds a read-only pointer (a `&CStr`): never written, reallocated or freed by it
    pub ro: bool,
}

impl Block {
    pub fn addr(&self) -> usize {
        self.ptr.addr().get()
    }
    pub fn end(&self) -> usize {
        self.addr() + self.len
    }
}

#[derive(Default)]
pub struct Shadow {
    pub blocks: Vec<Block>,
    pub next_id: u32,
    pub birth: u64,
    pub max_blocks: usize,
    pub forgotten: u64,
}

pub fn pattern(seed: u32, len: usize) -> Vec<u8> {
    let mut v = Vec::with_capacity(len);
    let mut x = seed.wrapping_mul(2654435761).wrapping_add(12345);
    for k in 0..len {
        if k % 4 == 0 {
            x ^= x << 13;
            x ^= x >> 17;
            x ^= x << 5;
        }
        let b = (x >> ((k % 4) * 8)) as u8;
        v.push(b | 1);
    }
    v
}

pub type Finding = (&'static str, String, String); // (property, signature, detail)

impl Shadow {
    pub fn new(max_blocks: usize) -> Self {
        Shadow { max_blocks, ..Default::default() }
    }

    pub fn tick(&mut self) -> u64 {
        self.birth += 1;
        self.birth
    }

    /// Registers a block and fills it with a fresh pattern.
    ///
    /// # Safety
    /// `ptr` must be valid for writes of `len` bytes.
    pub unsafe fn add(&mut self, ptr: NonNull<u8>, len: usize, layout: Layout, depth: u32, via: &'static str, raw_api: bool) -> u32 {
        let id = self.next_id;
        self.next_id += 1;
        let expect = pattern(id.wrapping_mul(7919).wrapping_add(len as u32), len);
        unsafe { std::ptr::copy_nonoverlapping(expect.as_ptr(), ptr.as_ptr(), len) };
        let birth = self.tick();
        self.blocks.push(Block { id, ptr, len, layout, depth, birth, via, expect, raw_api, ro: false });
        if self.blocks.len() > self.max_blocks {
            // forgetting a block is always legal (it simply stays allocated); drop the oldest
            self.blocks.remove(0);
            self.forgotten += 1;
        }
        id
    }

    /// Registers a block whose contents are already known (e.g. a typed allocation's value).
    pub fn add_with_contents(&mut self, ptr: NonNull<u8>, layout: Layout, depth: u32, via: &'static str, expect: Vec<u8>) -> u32 {
        let id = self.next_id;
        self.next_id += 1;
        let birth = self.tick();
        let len = expect.len();
        self.blocks.push(Block { id, ptr, len, layout, depth, birth, via, expect, raw_api: false, ro: via.contains("cstr") });
        if self.blocks.len() > self.max_blocks {
            self.blocks.remove(0);
            self.forgotten += 1;
        }
        id
    }

    pub fn take(&mut self, idx: usize) -> Block {
        self.blocks.remove(idx)
    }

    pub fn kill_born_after(&mut self, birth: u64) -> usize {
        let n = self.blocks.len();
        self.blocks.retain(|b| b.birth <= birth);
        n - self.blocks.len()
    }

    pub fn kill_deeper_than(&mut self, depth: u32) -> usize {
        let n = self.blocks.len();
        self.blocks.retain(|b| b.depth <= depth);
        n - self.blocks.len()
    }

    pub fn clear(&mut self) {
        self.blocks.clear();
    }

    /// Overwrites a block with the "dirty" byte before it is handed back.
    ///
    /// # Safety
    /// block must still be valid
    pub unsafe fn dirty(b: &Block) {
        unsafe { b.ptr.as_ptr().write_bytes(DIRTY_BYTE, b.len) };
    }

    pub fn verify(b: &Block) -> Option<usize> {
        if b.len == 0 {
            return None;
        }
        let s = unsafe { std::slice::from_raw_parts(b.ptr.as_ptr() as *const u8, b.len) };
        if s == &b.expect[..] {
            None
        } else {
            Some(s.iter().zip(b.expect.iter()).position(|(x, y)| x != y).unwrap_or(0))
        }
    }

    /// Validity (C01), disjointness (C01), integrity (C02) of all live blocks.
    pub fn check(&self, view: &StatView, out: &mut Vec<Finding>) {
        // validity
        for b in &self.blocks {
            let a = b.addr();
            if a % b.layout.align() != 0 {
                out.push(("C01", format!("misaligned_block:{}", b.via), format!("block #{} at {:#x} align {}", b.id, a, b.layout.align())));
            }
            if b.len == 0 {
                if b.raw_api {
                    let ok = view.fwd.iter().any(|c| a >= c.content_start && a <= c.content_end);
                    if !ok {
                        out.push(("C01", format!("zero_size_block_outside_chunks:{}", b.via), format!("block #{} at {:#x}", b.id, a)));
                    }
                }
                continue;
            }
            let inside = view.fwd.iter().any(|c| a >= c.content_start && b.end() <= c.content_end);
            if !inside {
                out.push((
                    "C01",
                    format!("block_outside_owned_memory:{}", b.via),
                    format!("block #{} {:#x}..{:#x} (via {}) is not inside any chunk's content range", b.id, a, b.end(), b.via),
                ));
            }
        }
        // disjointness
        let mut iv: Vec<(usize, usize, u32, &'static str)> = self.blocks.iter().filter(|b| b.len > 0).map(|b| (b.addr(), b.end(), b.id, b.via)).collect();
        iv.sort_unstable();
        for w in iv.windows(2) {
            if w[1].0 < w[0].1 {
                out.push((
                    "C01",
                    format!("live_blocks_overlap:{}+{}", w[0].3.min(w[1].3), w[0].3.max(w[1].3)),
                    format!("block #{} {:#x}..{:#x} overlaps block #{} {:#x}..{:#x}", w[0].2, w[0].0, w[0].1, w[1].2, w[1].0, w[1].1),
                ));
                break;
            }
        }
        // integrity
        for b in &self.blocks {
            if let Some(off) = Self::verify(b) {
                out.push((
                    "C02",
                    format!("live_block_changed:{}", b.via),
                    format!("block #{} (via {}, len {}) differs at byte {}", b.id, b.via, b.len, off),
                ));
            }
        }
    }

    /// After a finding, re-synchronise expectations so that one corruption is reported once.
    pub fn resync(&mut self) {
        for b in &mut self.blocks {
            if b.len > 0 && Self::verify(b).is_some() {
                let s = unsafe { std::slice::from_raw_parts(b.ptr.as_ptr() as *const u8, b.len) };
                b.expect.copy_from_slice(s);
            }
        }
    }

    /// live block nearest to the bump position in `chunk` (the "most recent" one), and whether
    /// the block with index `idx` is interior (another live block lies between it and the position)
    pub fn is_interior(&self, idx: usize, up: bool, chunk: &crate::snap::ChunkInfo) -> bool {
        let b = &self.blocks[idx];
        self.blocks.iter().enumerate().any(|(j, o)| {
            j != idx && o.len > 0 && o.addr() >= chunk.content_start && o.end() <= chunk.content_end && if up { o.addr() >= b.end() } else { o.end() <= b.addr() }
        })
    }
}

/// Byte copy of every chunk's content range.
pub struct FrameSnap {
    pub chunks: Vec<(usize, Vec<u8>)>,
}

impl FrameSnap {
    /// # Safety
    /// all content memory must be initialised (thick `MonAlloc` pre-fills it)
    pub unsafe fn take(s: &Snap) -> FrameSnap {
        let mut chunks = Vec::new();
        for (c, p) in s.typed.fwd.iter().zip(s.content_ptrs.iter()) {
            let sl = unsafe { std::slice::from_raw_parts(p.as_ptr() as *const u8, c.capacity) };
            chunks.push((c.content_start, sl.to_vec()));
        }
        FrameSnap { chunks }
    }

    /// Compares with the state after an operation; bytes inside `[hole.0, hole.1)` may differ.
    /// Returns the address of the first changed byte outside the hole.
    pub unsafe fn diff_outside(&self, after: &Snap, hole: (usize, usize)) -> Option<(usize, u8, u8)> {
        for (c, p) in after.typed.fwd.iter().zip(after.content_ptrs.iter()) {
            let Some((start, old)) = self.chunks.iter().find(|(s, _)| *s == c.content_start) else { continue };
            let n = old.len().min(c.capacity);
            let new = unsafe { std::slice::from_raw_parts(p.as_ptr() as *const u8, n) };
            if new == &old[..n] {
                continue;
            }
            for k in 0..n {
                if new[k] != old[k] {
                    let a = start + k;
                    if a < hole.0 || a >= hole.1 {
                        return Some((a, old[k], new[k]));
                    }
                }
            }
        }
        None
    }
}
