//! `MonAlloc`: the instrumented base allocator.  Sees every chunk request / release of the arena,
//! keeps a ledger of grants, injects faults, over-grants, places blocks at hostile alignments and
//! (in `thick` mode) surrounds every grant with guard zones and pre-fills it with junk.

use bump_scope::alloc::{AllocError, Allocator};
use std::alloc::{GlobalAlloc, Layout, System};
use std::cell::RefCell;
use std::ptr::NonNull;
use std::rc::Rc;
use std::sync::{Arc, Mutex};

use crate::rng::Rng;

pub const GUARD: usize = 64;
pub const GUARD_BYTE: u8 = 0xA5;
pub const FRESH_BYTE: u8 = 0xCD;
pub const FREED_BYTE: u8 = 0xDD;
const ADDR_MASK: usize = 0x5555_5555_5555_5555;

#[derive(Clone, Copy, Debug, PartialEq, Eq)]
pub enum Overgrant {
    Exact,
    Small,  // +1..15
    Medium, // +16..4096
    Random,
}

#[derive(Clone, Copy, Debug, PartialEq, Eq)]
pub enum Place {
    /// whatever the system allocator returns for the requested alignment
    Natural,
    /// address == align (mod 2*align): nothing may rely on accidental over-alignment
    Minimal,
    /// address == r (mod 4096): two arenas get congruent chunk addresses
    Residue(usize),
}

#[derive(Clone, Debug)]
pub struct Policy {
    pub thick: bool,
    pub overgrant: Overgrant,
    pub place: Place,
    pub quarantine: bool,
    pub refuse_over: usize,
}

impl Policy {
    pub fn thin() -> Self {
        Policy { thick: false, overgrant: Overgrant::Exact, place: Place::Natural, quarantine: false, refuse_over: 1 << 30 }
    }
    pub fn thick() -> Self {
        Policy {
            thick: true,
            overgrant: Overgrant::Exact,
            place: Place::Natural,
            quarantine: !cfg!(miri) && !cfg!(vh_sanitizer),
            refuse_over: 1 << 30,
        }
    }
    pub fn describe(&self) -> String {
        format!("{}/{:?}/{:?}", if self.thick { "thick" } else { "thin" }, self.overgrant, self.place)
    }
}

#[derive(Clone, Debug, Default)]
pub struct FailPlan {
    /// indices (0-based, counted over `allocate` calls of this state) that are refused
    pub fail_calls: Vec<u64>,
    /// every call with index >= this is refused
    pub fail_from: Option<u64>,
    /// each call refused with probability p/1024
    pub fail_prob: u32,
    /// refuse when the live granted bytes would exceed this
    pub byte_budget: Option<usize>,
}

#[derive(Clone, Copy, Debug, PartialEq, Eq)]
pub enum EvKind {
    Alloc,
    AllocRefused,
    Dealloc,
    DeallocBad,
}

#[derive(Clone, Copy, Debug)]
pub struct Event {
    pub seq: u64,
    pub op: u64,
    pub kind: EvKind,
    pub grant: usize,
    pub addr: usize,
    pub size: usize,
    pub align: usize,
    pub granted: usize,
}

#[derive(Debug)]
pub struct Grant {
    pub id: usize,
    /// obfuscated user address (so that leak detectors do not see the ledger as a reference)
    addr_x: usize,
    pub req: Layout,
    pub granted: usize,
    pub live: bool,
    pub released_with: Option<Layout>,
    pub op: u64,
    // thick mode only
    base: Option<NonNull<u8>>,
    sys_layout: Layout,
    user_off: usize,
}

impl Grant {
    pub fn addr(&self) -> usize {
        self.addr_x ^ ADDR_MASK
    }
    pub fn end(&self) -> usize {
        self.addr() + self.granted
    }
}

pub struct MonState {
    pub policy: Policy,
    pub fail: FailPlan,
    pub rng: Rng,
    pub grants: Vec<Grant>,
    pub log: Vec<Event>,
    pub seq: u64,
    pub op: u64,
    pub alloc_calls: u64,
    pub dealloc_calls: u64,
    pub refused_total: u64,
    /// reset by the harness before each operation
    pub refused_in_op: u32,
    pub allocs_in_op: u32,
    pub deallocs_in_op: u32,
    pub live_bytes: usize,
    pub live_count: usize,
    pub peak_live: usize,
    /// problems found by the ledger: (signature, detail)
    pub problems: Vec<(String, String)>,
    pub max_align_seen: usize,
}

fn sys_align_floor() -> usize {
    if cfg!(miri) { 4096 } else { 16 }
}

impl MonState {
    pub fn new(policy: Policy, fail: FailPlan, seed: u64) -> Self {
        MonState {
            policy,
            fail,
            rng: Rng::new(seed ^ 0xA110C),
            grants: Vec::new(),
            log: Vec::new(),
            seq: 0,
            op: 0,
            alloc_calls: 0,
            dealloc_calls: 0,
            refused_total: 0,
            refused_in_op: 0,
            allocs_in_op: 0,
            deallocs_in_op: 0,
            live_bytes: 0,
            live_count: 0,
            peak_live: 0,
            problems: Vec::new(),
            max_align_seen: 0,
        }
    }

    pub fn begin_op(&mut self, op: u64) {
        self.op = op;
        self.refused_in_op = 0;
        self.allocs_in_op = 0;
        self.deallocs_in_op = 0;
    }

    fn problem(&mut self, sig: &str, detail: String) {
        if self.problems.len() < 64 {
            self.problems.push((sig.to_string(), detail));
        }
    }

    fn ev(&mut self, kind: EvKind, grant: usize, addr: usize, layout: Layout, granted: usize) {
        let e = Event { seq: self.seq, op: self.op, kind, grant, addr, size: layout.size(), align: layout.align(), granted };
        self.seq += 1;
        if self.log.len() < 1 << 16 {
            self.log.push(e);
        }
    }

    fn should_fail(&mut self, idx: u64, layout: Layout) -> bool {
        if layout.size() > self.policy.refuse_over {
            return true;
        }
        if self.fail.fail_calls.contains(&idx) {
            return true;
        }
        if let Some(k) = self.fail.fail_from {
            if idx >= k {
                return true;
            }
        }
        if self.fail.fail_prob > 0 && (self.rng.below(1024) as u32) < self.fail.fail_prob {
            return true;
        }
        if let Some(b) = self.fail.byte_budget {
            if self.live_bytes.saturating_add(layout.size()) > b {
                return true;
            }
        }
        false
    }

    pub fn allocate(&mut self, layout: Layout) -> Result<NonNull<[u8]>, AllocError> {
        let idx = self.alloc_calls;
        self.alloc_calls += 1;
        self.max_align_seen = self.max_align_seen.max(layout.align());
        if layout.size() == 0 {
            // the arena never asks for zero bytes (a chunk always contains its header)
            self.problem("base_zero_size_request", format!("allocate({layout:?})"));
        }
        if self.should_fail(idx, layout) {
            self.refused_total += 1;
            self.refused_in_op += 1;
            self.ev(EvKind::AllocRefused, usize::MAX, 0, layout, 0);
            return Err(AllocError);
        }
        self.allocs_in_op += 1;

        let extra = match self.policy.overgrant {
            Overgrant::Exact => 0,
            Overgrant::Small => self.rng.range(1, 15),
            Overgrant::Medium => self.rng.range(16, 4096),
            Overgrant::Random => match self.rng.below(4) {
                0 => 0,
                1 => self.rng.range(1, 15),
                2 => self.rng.range(16, 300),
                _ => self.rng.range(300, 9000),
            },
        };
        let granted = layout.size() + extra;
        let id = self.grants.len();

        let (ptr, base, sys_layout, user_off) = if !self.policy.thick {
            // thin: straight to the system allocator, exact size, nothing around it
            let sys_layout = Layout::from_size_align(granted.max(1), layout.align().max(sys_align_floor())).map_err(|_| AllocError)?;
            let p = unsafe { System.alloc(sys_layout) };
            let Some(p) = NonNull::new(p) else { return Err(AllocError) };
            (p, None, sys_layout, 0usize)
        } else {
            let a = layout.align();
            let (sys_align, slack) = match self.policy.place {
                Place::Natural => (a, 0),
                Place::Minimal => (2 * a, 2 * a),
                Place::Residue(_) => (4096.max(a), 4096.max(a)),
            };
            let sys_align = sys_align.max(sys_align_floor()).max(GUARD);
            let lead = GUARD.max(a);
            let total = lead + slack + granted + GUARD;
            let sys_layout = Layout::from_size_align(total, sys_align).map_err(|_| AllocError)?;
            let b = unsafe { System.alloc(sys_layout) };
            let Some(b) = NonNull::new(b) else { return Err(AllocError) };
            let base_addr = b.addr().get();
            let mut off = lead;
            match self.policy.place {
                Place::Natural => {}
                Place::Minimal => {
                    // smallest off >= lead with (base+off) % (2a) == a
                    while (base_addr + off) % (2 * a) != a {
                        off += a;
                    }
                }
                Place::Residue(r) => {
                    let m = 4096.max(a);
                    let r = r % m / a * a;
                    while (base_addr + off) % m != r {
                        off += a;
                    }
                }
            }
            debug_assert!(off + granted + GUARD <= total);
            unsafe {
                // guard bytes in front and behind, junk inside
                b.add(off - GUARD).write_bytes(GUARD_BYTE, GUARD);
                b.add(off).write_bytes(FRESH_BYTE, granted);
                b.add(off + granted).write_bytes(GUARD_BYTE, GUARD);
            }
            (unsafe { b.add(off) }, Some(b), sys_layout, off)
        };

        let addr = ptr.addr().get();
        if addr % layout.align() != 0 {
            // harness bug, not a finding
            panic!("MonAlloc produced a misaligned block");
        }
        self.grants.push(Grant {
            id,
            addr_x: addr ^ ADDR_MASK,
            req: layout,
            granted,
            live: true,
            released_with: None,
            op: self.op,
            base,
            sys_layout,
            user_off,
        });
        self.live_bytes += granted;
        self.live_count += 1;
        self.peak_live = self.peak_live.max(self.live_count);
        self.ev(EvKind::Alloc, id, addr, layout, granted);
        Ok(NonNull::slice_from_raw_parts(ptr, granted))
    }

    pub fn deallocate(&mut self, ptr: NonNull<u8>, layout: Layout) {
        self.dealloc_calls += 1;
        self.deallocs_in_op += 1;
        let addr = ptr.addr().get();
        let found = self.grants.iter().rposition(|g| g.addr() == addr);
        let Some(i) = found else {
            self.problem("release_unknown_pointer", format!("deallocate({addr:#x}, {layout:?}): no grant starts here"));
            self.ev(EvKind::DeallocBad, usize::MAX, addr, layout, 0);
            return;
        };
        if !self.grants[i].live {
            let g = &self.grants[i];
            let d = format!("grant #{} ({:?}) released again with {layout:?}", g.id, g.req);
            self.problem("double_release", d);
            self.ev(EvKind::DeallocBad, i, addr, layout, 0);
            return;
        }
        let (req, granted) = (self.grants[i].req, self.grants[i].granted);
        if layout.align() != req.align() {
            self.problem("release_wrong_align", format!("grant #{i} requested {req:?}, released with {layout:?}"));
        }
        if layout.size() < req.size() || layout.size() > granted {
            self.problem(
                "release_size_out_of_range",
                format!("grant #{i} requested {} granted {granted}, released with size {}", req.size(), layout.size()),
            );
        }
        self.check_guards_of(i);
        let g = &mut self.grants[i];
        g.live = false;
        g.released_with = Some(layout);
        self.live_bytes -= granted;
        self.live_count -= 1;
        unsafe {
            if let Some(b) = g.base {
                if self.policy.quarantine {
                    b.add(g.user_off).write_bytes(FREED_BYTE, granted);
                } else {
                    System.dealloc(b.as_ptr(), g.sys_layout);
                    g.base = None;
                }
            } else {
                System.dealloc(ptr.as_ptr(), g.sys_layout);
            }
        }
        self.ev(EvKind::Dealloc, i, addr, layout, granted);
    }

    fn check_guards_of(&mut self, i: usize) {
        let g = &self.grants[i];
        let Some(b) = g.base else { return };
        let mut bad = None;
        unsafe {
            let front = b.add(g.user_off - GUARD);
            let back = b.add(g.user_off + g.granted);
            for k in 0..GUARD {
                if front.add(k).read() != GUARD_BYTE {
                    bad = Some(format!("byte {} before grant #{} changed", GUARD - k, g.id));
                    break;
                }
                if back.add(k).read() != GUARD_BYTE {
                    bad = Some(format!("byte {} after the end of grant #{} (granted {}) changed", k, g.id, g.granted));
                    break;
                }
            }
        }
        if let Some(d) = bad {
            self.problem("write_outside_granted_block", d);
        }
    }

    /// Guard zones of live grants and poison of quarantined ones.
    pub fn check_quiescent(&mut self) {
        if !self.policy.thick {
            return;
        }
        for i in 0..self.grants.len() {
            if self.grants[i].live {
                self.check_guards_of(i);
            } else if let Some(b) = self.grants[i].base {
                // quarantined: poison must be intact
                let g = &self.grants[i];
                let mut bad = None;
                unsafe {
                    let p = b.add(g.user_off);
                    for k in 0..g.granted {
                        if p.add(k).read() != FREED_BYTE {
                            bad = Some(format!("byte {k} of released grant #{} written after release", g.id));
                            break;
                        }
                    }
                }
                if let Some(d) = bad {
                    // report once: re-poison
                    unsafe { b.add(self.grants[i].user_off).write_bytes(FREED_BYTE, self.grants[i].granted) };
                    self.problem("write_after_release", d);
                }
            }
        }
    }

    pub fn live_grants(&self) -> impl Iterator<Item = &Grant> {
        self.grants.iter().filter(|g| g.live)
    }

    /// Index of the live grant containing `[addr, addr+len)`, if any.
    pub fn containing(&self, addr: usize, len: usize) -> Option<usize> {
        self.grants.iter().position(|g| g.live && addr >= g.addr() && addr + len <= g.end())
    }

    /// Frees quarantined memory (and, on request, leaked live grants' memory in thick mode).
    pub fn teardown(&mut self) {
        for g in &mut self.grants {
            if let Some(b) = g.base.take() {
                unsafe { System.dealloc(b.as_ptr(), g.sys_layout) };
            }
        }
    }
}

impl Drop for MonState {
    fn drop(&mut self) {
        self.teardown();
    }
}

pub type Shared = Rc<RefCell<MonState>>;

thread_local! {
    static CURRENT: RefCell<Option<Shared>> = const { RefCell::new(None) };
}

pub fn set_current(s: Option<Shared>) {
    CURRENT.with(|c| *c.borrow_mut() = s);
}

pub fn current() -> Shared {
    CURRENT.with(|c| c.borrow().clone().expect("MonAlloc: no current state"))
}

/// A handle type usable as the arena's base allocator.  The variants differ in size and alignment,
/// which changes `ChunkHeader<A>`.
pub trait MonHandle: Allocator + Clone + Default + 'static {
    const NAME: &'static str;
    fn with(state: &Shared) -> Self;
}

macro_rules! forward_alloc {
    ($t:ty, $get:expr) => {
        unsafe impl Allocator for $t {
            fn allocate(&self, layout: Layout) -> Result<NonNull<[u8]>, AllocError> {
                let s: Shared = $get(self);
                let r = s.borrow_mut().allocate(layout);
                r
            }
            unsafe fn deallocate(&self, ptr: NonNull<u8>, layout: Layout) {
                let s: Shared = $get(self);
                s.borrow_mut().deallocate(ptr, layout);
            }
        }
    };
}

/// zero-sized handle: state in a thread local
#[derive(Clone, Default, Debug)]
pub struct MZ;
forward_alloc!(MZ, |_s: &MZ| current());
impl MonHandle for MZ {
    const NAME: &'static str = "zst";
    fn with(_: &Shared) -> Self {
        MZ
    }
}

/// 8 bytes / align 8  -> header 48
#[derive(Clone)]
pub struct MRc(pub Shared);
impl Default for MRc {
    fn default() -> Self {
        MRc(current())
    }
}
forward_alloc!(MRc, |s: &MRc| s.0.clone());
impl MonHandle for MRc {
    const NAME: &'static str = "rc8";
    fn with(s: &Shared) -> Self {
        MRc(s.clone())
    }
}

/// 24 bytes / align 8 -> header 64
#[derive(Clone)]
pub struct M24(pub Shared, pub [usize; 2]);
impl Default for M24 {
    fn default() -> Self {
        M24(current(), [0x1111, 0x2222])
    }
}
forward_alloc!(M24, |s: &M24| s.0.clone());
impl MonHandle for M24 {
    const NAME: &'static str = "s24";
    fn with(s: &Shared) -> Self {
        M24(s.clone(), [0x1111, 0x2222])
    }
}

/// align 32 -> header alignment 32
#[derive(Clone)]
#[repr(align(32))]
pub struct MA32(pub Shared);
impl Default for MA32 {
    fn default() -> Self {
        MA32(current())
    }
}
forward_alloc!(MA32, |s: &MA32| s.0.clone());
impl MonHandle for MA32 {
    const NAME: &'static str = "a32";
    fn with(s: &Shared) -> Self {
        MA32(s.clone())
    }
}

/// align 64 -> header alignment 64, size 128
#[derive(Clone)]
#[repr(align(64))]
pub struct MA64(pub Shared);
impl Default for MA64 {
    fn default() -> Self {
        MA64(current())
    }
}
forward_alloc!(MA64, |s: &MA64| s.0.clone());
impl MonHandle for MA64 {
    const NAME: &'static str = "a64";
    fn with(s: &Shared) -> Self {
        MA64(s.clone())
    }
}

/// 200 bytes / align 8 -> header 240
#[derive(Clone)]
pub struct M200(pub Shared, pub [u8; 192]);
impl Default for M200 {
    fn default() -> Self {
        M200(current(), [7; 192])
    }
}
forward_alloc!(M200, |s: &M200| s.0.clone());
impl MonHandle for M200 {
    const NAME: &'static str = "s200";
    fn with(s: &Shared) -> Self {
        M200(s.clone(), [7; 192])
    }
}

// ------------------------------------------------------------------------------------------------
// Thread-safe twin for the pool.

pub type SharedSync = Arc<Mutex<MonState>>;

#[derive(Clone)]
pub struct MArc(pub SharedSync);

unsafe impl Allocator for MArc {
    fn allocate(&self, layout: Layout) -> Result<NonNull<[u8]>, AllocError> {
        self.0.lock().unwrap_or_else(|e| e.into_inner()).allocate(layout)
    }
    unsafe fn deallocate(&self, ptr: NonNull<u8>, layout: Layout) {
        self.0.lock().unwrap_or_else(|e| e.into_inner()).deallocate(ptr, layout);
    }
}

// `MonState` holds raw pointers; all access goes through the mutex.
unsafe impl Send for MonState {}
