//! The recursive interpreter over one `BumpScope`.

use super::*;
use bump_scope::{Checkpoint, WithoutDealloc, WithoutShrink};
use std::ptr::NonNull;

use crate::shadow::FrameSnap;

pub const HANDLE_NAMES: [&str; 9] = ["scope", "&scope", "WoD", "WoS", "WoD(WoS)", "WoS(WoD)", "dynCore", "&mut scope", "&mut dynMutCore"];
pub const N_REF_HANDLES: usize = 7;

pub fn with_handle_ref<A, S, R>(scope: &BumpScope<'_, A, S>, kind: usize, f: impl FnOnce(&dyn Allocator) -> R) -> R
where
    A: MonHandle + BaseAllocator<S::GuaranteedAllocated>,
    S: BumpAllocatorSettings,
{
    match kind {
        0 => f(scope),
        1 => f(&scope),
        2 => f(&WithoutDealloc(scope)),
        3 => f(&WithoutShrink(scope)),
        4 => f(&WithoutDealloc(WithoutShrink(scope))),
        5 => f(&WithoutShrink(WithoutDealloc(scope))),
        _ => {
            let d: &dyn BumpAllocatorCore = scope;
            let a: &dyn Allocator = d;
            f(a)
        }
    }
}

pub fn with_handle<A, S, R>(scope: &mut BumpScope<'_, A, S>, kind: usize, f: impl FnOnce(&dyn Allocator) -> R) -> R
where
    A: MonHandle + BaseAllocator<S::GuaranteedAllocated>,
    S: BumpAllocatorSettings,
{
    match kind {
        7 => f(&&mut *scope),
        8 => {
            let d: &mut dyn MutBumpAllocatorCore = scope;
            f(&d)
        }
        k => with_handle_ref(&*scope, k, f),
    }
}

pub fn dealloc_on<S: BumpAllocatorSettings>(kind: usize) -> bool {
    S::DEALLOCATES && !matches!(kind, 2 | 4 | 5)
}
pub fn shrink_on<S: BumpAllocatorSettings>(kind: usize) -> bool {
    S::SHRINKS && !matches!(kind, 3 | 4 | 5)
}

pub fn gen_align(ctx: &mut Ctx) -> usize {
    let w: &[u32] = if ctx.p.small { &[25, 10, 15, 15, 10, 6, 4, 0, 0, 0, 0, 0, 0] } else { &[25, 10, 15, 15, 10, 6, 5, 3, 3, 2, 2, 2, 2] };
    1 << ctx.rng.weighted(w)
}

pub fn gen_size(ctx: &mut Ctx, align: usize, min_align: usize) -> usize {
    let rem = ctx.view.typed.cur.map(|c| c.remaining).unwrap_or(0);
    let cap = ctx.view.typed.cur.map(|c| c.capacity).unwrap_or(512);
    let big_cap = if ctx.p.small { 700 } else { 20000 };
    match ctx.rng.weighted(&[5, 35, 22, 26, 6, 6]) {
        0 => 0,
        1 => ctx.rng.range(1, 64),
        2 => ctx.rng.range(64, if ctx.p.small { 200 } else { 600 }),
        3 => {
            // targeted at the end of the current chunk
            let d = *ctx.rng.pick(&[0usize, 1, min_align, align, 2 * align, 16]);
            let base = if ctx.rng.chance(1, 5) { rem.saturating_sub(align.saturating_sub(1)) } else { rem };
            let s = if ctx.rng.bool() { base.saturating_add(d) } else { base.saturating_sub(d) };
            s.min(big_cap)
        }
        4 => ctx.rng.range(600.min(big_cap), (3 * cap).clamp(601, big_cap)),
        _ => ctx.rng.range(0, 40) * min_align.max(1),
    }
}

pub fn gen_layout(ctx: &mut Ctx, min_align: usize) -> Layout {
    let align = gen_align(ctx);
    let size = gen_size(ctx, align, min_align);
    Layout::from_size_align(size, align).unwrap()
}

#[derive(Clone, Copy, Debug, PartialEq, Eq)]
pub struct Tuple {
    pub allocated: usize,
    pub chunk: Option<usize>,
    pub pos: usize,
    pub count: usize,
    pub size: usize,
}

pub fn tuple_of(s: &Snap) -> Tuple {
    Tuple { allocated: s.typed.allocated, chunk: s.typed.cur.map(|c| c.chunk_start), pos: s.typed.cur.map(|c| c.pos).unwrap_or(0), count: s.typed.count, size: s.typed.size }
}

/// C03: compares the state after a scope ended with the tuple recorded at its entry.
pub fn check_restored(ctx: &mut Ctx, entry: Tuple, how: &str, up: bool) {
    let now = tuple_of(&ctx.view);
    match entry.chunk {
        Some(ch) => {
            if now.allocated != entry.allocated {
                ctx.viol("C03", format!("allocated_not_restored:{how}"), format!("entry {} exit {}", entry.allocated, now.allocated));
            }
            if now.chunk != Some(ch) {
                ctx.viol("C03", format!("current_chunk_not_restored:{how}"), format!("entry {:#x} exit {:x?}", ch, now.chunk));
            } else if now.pos != entry.pos {
                ctx.viol("C03", format!("position_not_restored:{how}"), format!("entry {:#x} exit {:#x}", entry.pos, now.pos));
            }
        }
        None => {
            // entered without any chunk: afterwards either still none, or the start of the first chunk
            if let Some(cur) = ctx.view.typed.cur {
                let first = ctx.view.typed.fwd[0];
                let start = if up { first.content_start } else { first.content_end };
                if now.allocated != 0 || cur.chunk_start != first.chunk_start || cur.pos != start {
                    ctx.viol(
                        "C03",
                        format!("not_rewound_to_first_chunk_start:{how}"),
                        format!("allocated {} cur {:#x} first {:#x} pos {:#x} start {:#x}", now.allocated, cur.chunk_start, first.chunk_start, cur.pos, start),
                    );
                }
                ctx.ev("reset_to_unallocated_checkpoint");
            }
        }
    }
    if now.count < entry.count || now.size < entry.size {
        ctx.viol("C03", format!("chunks_lost_at_scope_exit:{how}"), format!("count {} -> {}, size {} -> {}", entry.count, now.count, entry.size, now.size));
    }
}

struct Cp {
    cp: Checkpoint,
    birth: u64,
    tuple: Tuple,
}

/// Registers a freshly obtained raw block.
pub unsafe fn reg(ctx: &mut Ctx, ptr: NonNull<u8>, len: usize, layout: Layout, depth: u32, via: &'static str, raw_api: bool) {
    unsafe { ctx.sh.add(ptr, len, layout, depth, via, raw_api) };
}

fn classify_alloc_event(ctx: &mut Ctx, had_chunk: bool, chunks_before: usize, cur_before: Option<usize>) {
    let allocs = ctx.allocs_in_op();
    if allocs > 0 {
        if !had_chunk {
            ctx.ev("first_chunk_from_unallocated");
        } else {
            ctx.ev("slow_new");
        }
        let m = ctx.mon.borrow();
        if let Some(g) = m.grants.last() {
            if g.granted > g.req.size() {
                drop(m);
                ctx.ev("overgrant_used");
            }
        }
    } else {
        let _ = chunks_before;
        if ctx.view.typed.cur.map(|c| c.chunk_start) != cur_before {
            // filled in by the caller after `after` ran; see `post_alloc_event`
        }
    }
}

fn pick_victim(ctx: &mut Ctx) -> Option<usize> {
    let n = ctx.sh.blocks.len();
    if n == 0 {
        return None;
    }
    let i = if ctx.rng.chance(3, 5) {
        // the newest block: most likely the last allocation
        n - 1 - ctx.rng.below(n.min(2))
    } else {
        ctx.rng.below(n)
    };
    if ctx.sh.blocks[i].ro { None } else { Some(i) }
}

pub fn level<'a, A, S>(scope: &mut BumpScope<'a, A, S>, ctx: &mut Ctx, depth: u32, mut quota: usize)
where
    A: MonHandle + BaseAllocator<S::GuaranteedAllocated>,
    S: BumpAllocatorSettings,
{
    let mut cps: Vec<Cp> = Vec::new();
    let saved_depth = ctx.depth_now;
    ctx.depth_now = depth;
    while quota > 0 && ctx.quota > 0 {
        quota -= 1;
        if ctx.viols_here > 6 {
            break;
        }
        if depth > 0 && ctx.rng.chance(1, 14) {
            break;
        }
        if ctx.catch_depth > 0 && ctx.rng.chance(1, 45) {
            ctx.begin("unwind (injected panic leaves the region)".into());
            ctx.depth_now = saved_depth;
            std::panic::panic_any(InjectedExit);
        }
        let op = ctx.rng.weighted(&ctx.p.w);
        match op {
            opid::ALLOC => op_alloc(scope, ctx, depth),
            opid::GROW => op_grow(scope, ctx, depth),
            opid::SHRINK => op_shrink(scope, ctx, depth),
            opid::DEALLOC => op_dealloc(scope, ctx),
            opid::RECLAIM_PROBE => op_reclaim_probe(scope, ctx, depth),
            opid::TYPED => super::typed::op_typed(scope, ctx, depth),
            opid::TRY_WITH => super::typed::op_try_with(scope, ctx, depth),
            opid::TYPED_LAYOUT => super::typed::op_typed_layout(scope, ctx, depth),
            opid::BOX_DEALLOC => super::typed::op_box_dealloc(scope, ctx),
            opid::RESERVE => super::typed::op_reserve(scope, ctx),
            opid::MUT_HELPERS => super::typed::op_mut_helpers(scope, ctx, depth),
            opid::PREPARED => super::prepared::op_prepared(scope, ctx, depth),
            opid::PREPARED_SLICE => super::prepared::op_prepared_slice(scope, ctx, depth),
            opid::SESSION => super::session::op_session(scope, ctx, depth),
            opid::SCOPED => {
                if depth < ctx.p.max_depth {
                    op_scoped(scope, ctx, depth)
                }
            }
            opid::SCOPED_ALIGNED => {
                if depth < ctx.p.max_depth {
                    super::structure::op_scoped_aligned(scope, ctx, depth)
                }
            }
            opid::GUARD => {
                if depth < ctx.p.max_depth {
                    op_guard(scope, ctx, depth)
                }
            }
            opid::ALIGNED => {
                if depth < ctx.p.max_depth + 2 && ctx.catch_depth < 12 {
                    super::structure::op_aligned(scope, ctx, depth)
                }
            }
            opid::CHECKPOINT => {
                if cps.len() < 4 {
                    ctx.begin("checkpoint".into());
                    let cp = scope.checkpoint();
                    let birth = ctx.sh.tick();
                    after(ctx, scope, Expect::default());
                    cps.push(Cp { cp, birth, tuple: tuple_of(&ctx.view) });
                }
            }
            opid::RESET_TO => {
                if !cps.is_empty() {
                    let i = ctx.rng.below(cps.len());
                    cps.truncate(i + 1);
                    let c = cps.last().unwrap();
                    let (cp, birth, tuple) = (c.cp, c.birth, c.tuple);
                    ctx.begin(format!("reset_to checkpoint#{i}"));
                    ctx.sh.kill_born_after(birth);
                    let before_chunk = ctx.view.typed.cur.map(|c| c.chunk_start);
                    unsafe { scope.reset_to(cp) };
                    after(ctx, scope, Expect { may_decrease: true, no_release: true, ..Default::default() });
                    check_restored(ctx, tuple, "reset_to", S::UP);
                    ctx.ev("reset_to");
                    if before_chunk != ctx.view.typed.cur.map(|c| c.chunk_start) {
                        ctx.ev("scope_exit_across_chunks");
                    }
                    if ctx.rng.bool() {
                        cps.pop();
                    }
                }
            }
            opid::CLAIM => {
                if ctx.claim_depth < 3 && ctx.catch_depth < 12 {
                    super::structure::op_claim(scope, ctx, depth)
                }
            }
            opid::BY_VALUE => super::structure::op_by_value(scope, ctx, depth),
            opid::REPLAY => {
                if depth < ctx.p.max_depth && ctx.p.fault_prob == 0 {
                    super::structure::op_replay(scope, ctx, depth)
                }
            }
            opid::BORROW_SETTINGS => super::structure::op_borrow_settings(scope, ctx, depth),
            _ => {}
        }
    }
    ctx.depth_now = saved_depth;
}

// ------------------------------------------------------------------------------------------------
// raw allocator-interface operations

pub fn post_alloc_event(ctx: &mut Ctx, before_cur: Option<usize>, before_chunks: usize, had_chunk: bool) {
    let allocs = ctx.allocs_in_op();
    if allocs > 0 {
        classify_alloc_event(ctx, had_chunk, before_chunks, before_cur);
    } else if ctx.view.typed.cur.map(|c| c.chunk_start) != before_cur {
        ctx.ev("slow_reuse");
    } else {
        ctx.ev("fast");
    }
}

fn pick_handle<S: BumpAllocatorSettings>(ctx: &mut Ctx) -> usize {
    ctx.rng.weighted(&[30, 8, 8, 8, 5, 5, 10, 8, 6])
}

pub fn op_alloc<A, S>(scope: &mut BumpScope<'_, A, S>, ctx: &mut Ctx, depth: u32)
where
    A: MonHandle + BaseAllocator<S::GuaranteedAllocated>,
    S: BumpAllocatorSettings,
{
    let layout = gen_layout(ctx, S::MIN_ALIGN);
    let zero = ctx.rng.chance(1, 3);
    let h = pick_handle::<S>(ctx);
    ctx.begin(format!("allocate{} size={} align={} via {}", if zero { "_zeroed" } else { "" }, layout.size(), layout.align(), HANDLE_NAMES[h]));
    let (bc, bn, had) = (ctx.view.typed.cur.map(|c| c.chunk_start), ctx.view.typed.fwd.len(), ctx.view.typed.cur.is_some());
    let r = guarded(|| with_handle(scope, h, |a| if zero { a.allocate_zeroed(layout) } else { a.allocate(layout) }));
    match r {
        Err(p) => {
            let k = classify(&p);
            ctx.viol("C07", "allocator_interface_panicked:allocate".into(), format!("{k:?}"));
        }
        Ok(Err(_)) => {
            ctx.rep.count(if ctx.refused() { "alloc_err_refused" } else { "alloc_err_other" });
            if !ctx.refused() && layout.size() < (1 << 20) && ctx.claim_depth == 0 {
                ctx.rep.count("alloc_err_unexplained");
            }
        }
        Ok(Ok(p)) => {
            if ctx.refused() {
                ctx.viol("C07", "ok_after_refusal:allocate".into(), "allocate returned Ok although the base allocator refused".into());
            }
            let ptr = p.cast::<u8>();
            if p.len() < layout.size() {
                ctx.viol("C01", "block_shorter_than_requested:allocate".into(), format!("asked {} got {}", layout.size(), p.len()));
            }
            if zero {
                let s = unsafe { std::slice::from_raw_parts(ptr.as_ptr() as *const u8, p.len().min(layout.size())) };
                if let Some(i) = s.iter().position(|&b| b != 0) {
                    ctx.viol("C02", "zeroed_block_not_zero:allocate_zeroed".into(), format!("byte {i} = {:#x}", s[i]));
                }
                ctx.ev("zeroed_on_dirty");
            }
            unsafe { reg(ctx, ptr, layout.size(), layout, depth, "allocate", true) };
        }
    }
    after(ctx, scope, Expect { single_alloc: true, ..Default::default() });
    post_alloc_event(ctx, bc, bn, had);
}

fn realloc_layouts(ctx: &mut Ctx, old: Layout, grow: bool, min_align: usize, ptr_addr: usize) -> Layout {
    let align = match ctx.rng.weighted(&[60, 20, 20]) {
        0 => old.align(),
        1 => (old.align() << ctx.rng.range(1, 3)).min(if ctx.p.small { 64 } else { 4096 }),
        _ => (old.align() >> ctx.rng.range(1, 3)).max(1),
    };
    let _ = ptr_addr;
    let size = if grow {
        let rem = ctx.view.typed.cur.map(|c| c.remaining).unwrap_or(0);
        let d = match ctx.rng.weighted(&[10, 40, 20, 25, 5]) {
            0 => 0,
            1 => ctx.rng.range(1, 48),
            2 => ctx.rng.range(48, 400),
            3 => {
                let j = *ctx.rng.pick(&[0usize, 1, min_align, align]);
                if ctx.rng.bool() { rem.saturating_add(j) } else { rem.saturating_sub(j) }
            }
            _ => ctx.rng.range(400, if ctx.p.small { 800 } else { 6000 }),
        };
        old.size() + d.min(if ctx.p.small { 900 } else { 30000 })
    } else {
        match ctx.rng.weighted(&[15, 15, 60, 10]) {
            0 => old.size(),
            1 => 0,
            2 => ctx.rng.range(0, old.size()),
            _ => old.size() / min_align.max(1) / 2 * min_align.max(1),
        }
    };
    Layout::from_size_align(size, align).unwrap()
}

pub fn op_grow<A, S>(scope: &mut BumpScope<'_, A, S>, ctx: &mut Ctx, depth: u32)
where
    A: MonHandle + BaseAllocator<S::GuaranteedAllocated>,
    S: BumpAllocatorSettings,
{
    let Some(i) = pick_victim(ctx) else { return op_alloc(scope, ctx, depth) };
    let (old_ptr, old_layout, old_len) = (ctx.sh.blocks[i].ptr, ctx.sh.blocks[i].layout, ctx.sh.blocks[i].len);
    let new_layout = realloc_layouts(ctx, old_layout, true, S::MIN_ALIGN, old_ptr.addr().get());
    let zero = ctx.rng.chance(1, 3);
    let h = pick_handle::<S>(ctx);
    ctx.begin(format!(
        "grow{} block#{} {}->{} align {}->{} via {}",
        if zero { "_zeroed" } else { "" },
        ctx.sh.blocks[i].id,
        old_layout.size(),
        new_layout.size(),
        old_layout.align(),
        new_layout.align(),
        HANDLE_NAMES[h]
    ));
    // C13 precondition for "stays in place" (upward only): most recent, same alignment, room left
    let cur = ctx.view.typed.cur;
    let expect_inplace = S::UP
        && S::DEALLOCATES
        && !matches!(h, 2 | 4 | 5)
        && cur.map_or(false, |c| old_ptr.addr().get() + old_layout.size() == c.pos && old_ptr.addr().get() + new_layout.size() <= c.content_end)
        && new_layout.align() == old_layout.align()
        && old_layout.size() > 0;
    let frame = if ctx.p.frame && ctx.p.thick { Some(unsafe { FrameSnap::take(&ctx.view) }) } else { None };
    let (bc, bn, had) = (cur.map(|c| c.chunk_start), ctx.view.typed.fwd.len(), cur.is_some());
    let r = guarded(|| with_handle(scope, h, |a| unsafe { if zero { a.grow_zeroed(old_ptr, old_layout, new_layout) } else { a.grow(old_ptr, old_layout, new_layout) } }));
    match r {
        Err(p) => {
            let k = classify(&p);
            ctx.viol("C07", "allocator_interface_panicked:grow".into(), format!("{k:?}"));
        }
        Ok(Err(_)) => {
            ctx.rep.count(if ctx.refused() { "grow_err_refused" } else { "grow_err_other" });
        }
        Ok(Ok(p)) => {
            if ctx.refused() {
                ctx.viol("C07", "ok_after_refusal:grow".into(), "grow returned Ok although the base allocator refused".into());
            }
            let old = ctx.sh.take(i);
            let ptr = p.cast::<u8>();
            if p.len() < new_layout.size() {
                ctx.viol("C01", "block_shorter_than_requested:grow".into(), format!("asked {} got {}", new_layout.size(), p.len()));
            }
            let s = unsafe { std::slice::from_raw_parts(ptr.as_ptr() as *const u8, new_layout.size()) };
            if s[..old_len] != old.expect[..] {
                let k = s.iter().zip(old.expect.iter()).position(|(a, b)| a != b).unwrap_or(0);
                ctx.viol("C02", format!("grow_lost_prefix:{}", HANDLE_NAMES[h]), format!("byte {k} of {old_len} differs after grow {old_layout:?}->{new_layout:?}"));
            }
            if zero {
                if let Some(k) = s[old_layout.size()..].iter().position(|&b| b != 0) {
                    ctx.viol("C02", "zeroed_tail_not_zero:grow_zeroed".into(), format!("tail byte {k} = {:#x}", s[old_layout.size() + k]));
                }
                ctx.ev("zeroed_on_dirty");
            }
            if expect_inplace && ptr != old_ptr {
                ctx.viol("C13", "grow_of_most_recent_moved".into(), format!("{:#x} -> {:#x} ({old_layout:?} -> {new_layout:?})", old_ptr.addr(), ptr.addr()));
            }
            if expect_inplace {
                ctx.ev("grow_inplace_probe");
            }
            // frame condition: nothing outside the new block changed
            if let Some(fr) = &frame {
                let now = snap(scope.stats(), scope.any_stats());
                let hole = (ptr.addr().get(), ptr.addr().get() + p.len());
                if let Some((a, o, n)) = unsafe { fr.diff_outside(&now, hole) } {
                    ctx.viol("C02", format!("write_outside_new_block:grow:{}", HANDLE_NAMES[h]), format!("byte at {a:#x} changed {o:#x}->{n:#x}; new block {:#x}..{:#x}", hole.0, hole.1));
                }
            }
            let same_chunk = ctx.chunk_of(old_ptr.addr().get(), old_len.max(1)).is_some_and(|c| Some(c) == ctx.view.typed.fwd.iter().position(|x| ptr.addr().get() >= x.content_start && ptr.addr().get() + new_layout.size() <= x.content_end));
            if ptr == old_ptr {
                ctx.ev("grow_inplace");
            } else if same_chunk {
                ctx.ev("grow_moved_same_chunk");
            } else {
                ctx.ev("grow_moved_other_chunk");
            }
            unsafe { reg(ctx, ptr, new_layout.size(), new_layout, depth, "grow", true) };
        }
    }
    after(ctx, scope, Expect { single_alloc: true, ..Default::default() });
    post_alloc_event(ctx, bc, bn, had);
}

pub fn op_shrink<A, S>(scope: &mut BumpScope<'_, A, S>, ctx: &mut Ctx, depth: u32)
where
    A: MonHandle + BaseAllocator<S::GuaranteedAllocated>,
    S: BumpAllocatorSettings,
{
    let Some(i) = pick_victim(ctx) else { return op_alloc(scope, ctx, depth) };
    let (old_ptr, old_layout) = (ctx.sh.blocks[i].ptr, ctx.sh.blocks[i].layout);
    let new_layout = realloc_layouts(ctx, old_layout, false, S::MIN_ALIGN, old_ptr.addr().get());
    let h = pick_handle::<S>(ctx);
    ctx.begin(format!("shrink block#{} {}->{} align {}->{} via {}", ctx.sh.blocks[i].id, old_layout.size(), new_layout.size(), old_layout.align(), new_layout.align(), HANDLE_NAMES[h]));
    let interior = ctx.is_interior(i);
    let enabled = shrink_on::<S>(h);
    let frame = if ctx.p.frame && ctx.p.thick { Some(unsafe { FrameSnap::take(&ctx.view) }) } else { None };
    let r = guarded(|| with_handle(scope, h, |a| unsafe { a.shrink(old_ptr, old_layout, new_layout) }));
    match r {
        Err(p) => {
            let k = classify(&p);
            ctx.viol("C07", "allocator_interface_panicked:shrink".into(), format!("{k:?}"));
        }
        Ok(Err(_)) => {
            ctx.rep.count(if ctx.refused() { "shrink_err_refused" } else { "shrink_err_other" });
        }
        Ok(Ok(p)) => {
            if ctx.refused() {
                ctx.viol("C07", "ok_after_refusal:shrink".into(), "shrink returned Ok although the base allocator refused".into());
            }
            let old = ctx.sh.take(i);
            let ptr = p.cast::<u8>();
            if p.len() < new_layout.size() {
                ctx.viol("C01", "block_shorter_than_requested:shrink".into(), format!("asked {} got {}", new_layout.size(), p.len()));
            }
            let s = unsafe { std::slice::from_raw_parts(ptr.as_ptr() as *const u8, new_layout.size()) };
            if s[..] != old.expect[..new_layout.size()] {
                let k = s.iter().zip(old.expect.iter()).position(|(a, b)| a != b).unwrap_or(0);
                ctx.viol("C02", format!("shrink_lost_prefix:{}", HANDLE_NAMES[h]), format!("byte {k} of {} differs after shrink {old_layout:?}->{new_layout:?}", new_layout.size()));
            }
            if let Some(fr) = &frame {
                let now = snap(scope.stats(), scope.any_stats());
                let hole = (ptr.addr().get(), ptr.addr().get() + p.len());
                if let Some((a, o, n)) = unsafe { fr.diff_outside(&now, hole) } {
                    ctx.viol("C02", format!("write_outside_new_block:shrink:{}", HANDLE_NAMES[h]), format!("byte at {a:#x} changed {o:#x}->{n:#x}; new block {:#x}..{:#x}", hole.0, hole.1));
                }
            }
            if ptr == old_ptr {
                ctx.ev(if p.len() == old_layout.size() && new_layout.size() != old_layout.size() { "shrink_noop" } else { "shrink_inplace" });
            } else {
                ctx.ev("shrink_moved");
            }
            // the harness may continue with the requested size or with the returned length
            let keep = if p.len() > new_layout.size() && ctx.rng.bool() { p.len() } else { new_layout.size() };
            let lay = Layout::from_size_align(keep, new_layout.align()).unwrap();
            unsafe { reg(ctx, ptr, keep, lay, depth, "shrink", true) };
        }
    }
    after(ctx, scope, Expect { may_decrease: enabled && !interior, single_alloc: true, ..Default::default() });
}

pub fn op_dealloc<A, S>(scope: &mut BumpScope<'_, A, S>, ctx: &mut Ctx)
where
    A: MonHandle + BaseAllocator<S::GuaranteedAllocated>,
    S: BumpAllocatorSettings,
{
    let Some(i) = pick_victim(ctx) else { return };
    let h = pick_handle::<S>(ctx);
    let interior = ctx.is_interior(i);
    let enabled = dealloc_on::<S>(h);
    let b = ctx.sh.take(i);
    ctx.begin(format!("deallocate block#{} size={} align={} via {}", b.id, b.layout.size(), b.layout.align(), HANDLE_NAMES[h]));
    unsafe { Shadow::dirty(&b) };
    let before = ctx.view.typed.allocated;
    let r = guarded(|| with_handle(scope, h, |a| unsafe { a.deallocate(b.ptr, b.layout) }));
    if let Err(p) = r {
        let k = classify(&p);
        ctx.viol("C07", "allocator_interface_panicked:deallocate".into(), format!("{k:?}"));
    }
    after(ctx, scope, Expect { may_decrease: enabled && !interior, no_release: true, ..Default::default() });
    if ctx.view.typed.allocated < before {
        ctx.ev("dealloc_reclaim");
    } else {
        ctx.ev("dealloc_noop");
    }
}

/// C13: deallocate the most recent allocation, then ask for the same layout again.
pub fn op_reclaim_probe<A, S>(scope: &mut BumpScope<'_, A, S>, ctx: &mut Ctx, depth: u32)
where
    A: MonHandle + BaseAllocator<S::GuaranteedAllocated>,
    S: BumpAllocatorSettings,
{
    let Some(cur) = ctx.view.typed.cur else { return };
    // the block that ends exactly at the position (upward) / starts at it (downward)
    let found = ctx.sh.blocks.iter().position(|b| {
        b.raw_api
            && !b.ro
            && b.len > 0
            && b.len == b.layout.size()
            && b.len % S::MIN_ALIGN == 0
            && b.addr() % S::MIN_ALIGN == 0
            && if S::UP { b.end() == cur.pos } else { b.addr() == cur.pos }
    });
    let Some(i) = found else {
        // make one: allocate a block whose size is a multiple of the minimum alignment
        return op_alloc(scope, ctx, depth);
    };
    let h = *ctx.rng.pick(&[0usize, 1, 3, 6, 7]);
    if !dealloc_on::<S>(h) {
        return op_dealloc(scope, ctx);
    }
    let b = ctx.sh.take(i);
    ctx.begin(format!("reclaim-probe: deallocate block#{} size={} align={} then allocate the same layout, via {}", b.id, b.layout.size(), b.layout.align(), HANDLE_NAMES[h]));
    unsafe { Shadow::dirty(&b) };
    let before = ctx.view.typed.allocated;
    let r = guarded(|| {
        with_handle(scope, h, |a| unsafe {
            a.deallocate(b.ptr, b.layout);
            a.allocate(b.layout)
        })
    });
    match r {
        Err(p) => {
            let k = classify(&p);
            ctx.viol("C07", "allocator_interface_panicked:deallocate+allocate".into(), format!("{k:?}"));
        }
        Ok(Err(_)) => {
            ctx.viol("C13", "reclaimed_space_not_reusable".into(), format!("allocate({:?}) failed right after deallocating the most recent block of that layout", b.layout));
        }
        Ok(Ok(p)) => {
            let ptr = p.cast::<u8>();
            if ptr != b.ptr {
                ctx.viol("C13", "dealloc_then_alloc_different_address".into(), format!("{:#x} then {:#x} for {:?}", b.ptr.addr(), ptr.addr(), b.layout));
            }
            ctx.ev("reclaim_probe_same_address");
            unsafe { reg(ctx, ptr, b.layout.size(), b.layout, depth, "allocate", true) };
        }
    }
    after(ctx, scope, Expect { may_decrease: true, single_alloc: true, ..Default::default() });
    if ctx.view.typed.allocated > before {
        ctx.viol("C13", "dealloc_then_alloc_grew_allocated".into(), format!("allocated() {} -> {}", before, ctx.view.typed.allocated));
    }
}

// ------------------------------------------------------------------------------------------------
// scopes

/// Runs `f` as a region that may be left by an injected panic.  Returns true if it unwound.
pub fn region(ctx: &mut Ctx, f: impl FnOnce(&mut Ctx)) -> bool {
    ctx.catch_depth += 1;
    let r = catch_unwind(AssertUnwindSafe(|| f(ctx)));
    ctx.catch_depth -= 1;
    match r {
        Ok(()) => false,
        Err(p) => {
            if p.is::<InjectedExit>() {
                true
            } else {
                resume_unwind(p)
            }
        }
    }
}

pub fn op_scoped<A, S>(scope: &mut BumpScope<'_, A, S>, ctx: &mut Ctx, depth: u32)
where
    A: MonHandle + BaseAllocator<S::GuaranteedAllocated>,
    S: BumpAllocatorSettings,
{
    ctx.begin("scoped: enter".into());
    let entry = tuple_of(&ctx.view);
    let q = ctx.rng.range(2, 25);
    let unwound = region(ctx, |ctx| scope.scoped(|inner| level(inner, ctx, depth + 1, q)));
    ctx.sh.kill_deeper_than(depth);
    ctx.begin(format!("scoped: exit{}", if unwound { " (unwinding)" } else { "" }));
    let inner_chunk = ctx.view.typed.cur.map(|c| c.chunk_start);
    after(ctx, scope, Expect { may_decrease: true, no_release: true, ..Default::default() });
    check_restored(ctx, entry, if unwound { "scoped_unwind" } else { "scoped" }, S::UP);
    ctx.ev(if inner_chunk != ctx.view.typed.cur.map(|c| c.chunk_start) { "scope_exit_across_chunks" } else { "scope_exit_same_chunk" });
    if unwound {
        ctx.ev("scope_exit_unwind");
    }
}

pub fn op_guard<A, S>(scope: &mut BumpScope<'_, A, S>, ctx: &mut Ctx, depth: u32)
where
    A: MonHandle + BaseAllocator<S::GuaranteedAllocated>,
    S: BumpAllocatorSettings,
{
    ctx.begin("scope_guard: create".into());
    let entry = tuple_of(&ctx.view);
    let rounds = ctx.rng.range(1, 3);
    let unwound = region(ctx, |ctx| {
        let mut guard = scope.scope_guard();
        for r in 0..rounds {
            let q = ctx.rng.range(2, 16);
            level(guard.scope(), ctx, depth + 1, q);
            if r + 1 < rounds || ctx.rng.bool() {
                ctx.sh.kill_deeper_than(depth);
                ctx.begin("scope_guard: reset".into());
                let inner_chunk = ctx.view.typed.cur.map(|c| c.chunk_start);
                guard.reset();
                after(ctx, guard.scope(), Expect { may_decrease: true, no_release: true, ..Default::default() });
                check_restored(ctx, entry, "guard_reset", S::UP);
                ctx.ev(if inner_chunk != ctx.view.typed.cur.map(|c| c.chunk_start) { "scope_exit_across_chunks" } else { "scope_exit_same_chunk" });
            }
        }
    });
    ctx.sh.kill_deeper_than(depth);
    ctx.begin(format!("scope_guard: drop{}", if unwound { " (unwinding)" } else { "" }));
    let inner_chunk = ctx.view.typed.cur.map(|c| c.chunk_start);
    after(ctx, scope, Expect { may_decrease: true, no_release: true, ..Default::default() });
    check_restored(ctx, entry, if unwound { "guard_drop_unwind" } else { "guard_drop" }, S::UP);
    ctx.ev(if inner_chunk != ctx.view.typed.cur.map(|c| c.chunk_start) { "scope_exit_across_chunks" } else { "scope_exit_same_chunk" });
    if unwound {
        ctx.ev("scope_exit_unwind");
    }
}
