//! Prepared allocations: `prepare_allocation(_rev)` + `allocate_prepared(_rev)` and the slice
//! variants of `BumpAllocatorTyped`.

use super::level::*;
use super::*;
use crate::shadow::pattern;
use std::ptr::NonNull;

pub fn op_prepared<'a, A, S>(scope: &mut BumpScope<'a, A, S>, ctx: &mut Ctx, depth: u32)
where
    A: MonHandle + BaseAllocator<S::GuaranteedAllocated>,
    S: BumpAllocatorSettings,
{
    let rev = ctx.rng.bool();
    let via_dyn = ctx.rng.chance(1, 3);
    // the prepare layout: size a multiple of the alignment in most cases (the stated precondition of
    // the "range at least as large as the request" promise), arbitrary otherwise
    let align = gen_align(ctx).min(if ctx.p.small { 64 } else { 1024 });
    let mut size = gen_size(ctx, align, S::MIN_ALIGN);
    let multiple = ctx.rng.chance(3, 4);
    if multiple {
        size = size / align * align;
    }
    let l = Layout::from_size_align(size, align).unwrap();
    // commit layout: <= in size and alignment
    let calign = if ctx.rng.bool() { align } else { (align >> ctx.rng.range(0, 3)).max(1) };
    let mut csize = match ctx.rng.below(3) {
        0 => size,
        1 => ctx.rng.range(0, size),
        _ => size / 2,
    };
    if ctx.rng.chance(4, 5) {
        csize = csize / calign * calign;
    }
    let cl = Layout::from_size_align(csize, calign).unwrap();
    ctx.begin(format!(
        "prepare_allocation{} size={} align={} then allocate_prepared size={} align={}{}",
        if rev { "_rev" } else { "" },
        l.size(),
        l.align(),
        cl.size(),
        cl.align(),
        if via_dyn { " via dyn" } else { "" }
    ));
    let before_cur = ctx.view.typed.cur.map(|c| c.chunk_start);
    let s: &BumpScope<'a, A, S> = &*scope;
    let d: &dyn BumpAllocatorCore = s;
    let r = guarded(|| if via_dyn { if rev { d.prepare_allocation_rev(l) } else { d.prepare_allocation(l) } } else if rev { s.prepare_allocation_rev(l) } else { s.prepare_allocation(l) });
    let range = match r {
        Err(p) => {
            let k = classify(&p);
            ctx.viol("C07", "allocator_interface_panicked:prepare_allocation".into(), format!("{k:?}"));
            after(ctx, scope, Expect { single_alloc: true, ..Default::default() });
            return;
        }
        Ok(Err(_)) => {
            ctx.rep.count(if ctx.refused() { "prepare_err_refused" } else { "prepare_err_other" });
            after(ctx, scope, Expect { single_alloc: true, ..Default::default() });
            return;
        }
        Ok(Ok(r)) => r,
    };
    if ctx.refused() {
        ctx.viol("C07", "ok_after_refusal:prepare_allocation".into(), "prepare returned Ok although the base allocator refused".into());
    }
    let (rs, re) = (range.start.addr().get(), range.end.addr().get());
    // the range must be free space of the (possibly new) current chunk and must not have moved the position
    let now = snap(scope.stats(), scope.any_stats());
    let mut range_ok = true;
    match now.typed.cur {
        None => {
            ctx.viol("C01", "prepared_range_without_chunk".into(), format!("{rs:#x}..{re:#x}"));
            range_ok = false;
        }
        Some(c) => {
            let (free_lo, free_hi) = if S::UP { (c.pos, c.content_end) } else { (c.content_start, c.pos) };
            if !(rs <= re && rs >= free_lo && re <= free_hi) {
                ctx.viol("C01", "prepared_range_outside_free_space".into(), format!("range {rs:#x}..{re:#x} free {free_lo:#x}..{free_hi:#x}"));
                range_ok = false;
            }
            if Some(c.chunk_start) == before_cur && c.pos != ctx.view.typed.cur.unwrap().pos {
                ctx.viol("C15", "prepare_moved_position".into(), format!("{:#x} -> {:#x}", ctx.view.typed.cur.unwrap().pos, c.pos));
            }
            if multiple && re - rs < l.size() {
                ctx.viol("C11", "prepared_range_smaller_than_request".into(), format!("range {} bytes, asked {}", re - rs, l.size()));
            }
            if rs % l.align() != 0 && !rev {
                ctx.viol("C11", "prepared_range_start_misaligned".into(), format!("{rs:#x} align {}", l.align()));
            }
            if re % l.align() != 0 && rev {
                ctx.viol("C11", "prepared_range_end_misaligned".into(), format!("{re:#x} align {}", l.align()));
            }
        }
    }
    if !range_ok || re - rs < cl.size() || (!multiple && re - rs < l.size()) {
        // cannot commit safely; the prepared space is simply not used
        after(ctx, scope, Expect { single_alloc: true, ..Default::default() });
        return;
    }
    // contents go to the start of the range (plain) or to its end (rev)
    let expect = pattern(ctx.rng.next() as u32, cl.size());
    unsafe {
        let dst = if rev { range.end.sub(cl.size()) } else { range.start };
        std::ptr::copy_nonoverlapping(expect.as_ptr(), dst.as_ptr(), cl.size());
    }
    let r = guarded(|| unsafe {
        if via_dyn {
            if rev { d.allocate_prepared_rev(cl, range.clone()) } else { d.allocate_prepared(cl, range.clone()) }
        } else if rev {
            s.allocate_prepared_rev(cl, range.clone())
        } else {
            s.allocate_prepared(cl, range.clone())
        }
    });
    match r {
        Err(p) => {
            // a debug assertion of the crate about its own (undocumented) expectations
            unexpected_panic_as(ctx, "C01", p, "allocate_prepared");
        }
        Ok(p) => {
            let a = p.addr().get();
            if a < rs || a + cl.size() > re {
                ctx.viol("C01", "prepared_block_outside_range".into(), format!("block {a:#x}+{} range {rs:#x}..{re:#x}", cl.size()));
            } else if cl.size() > 0 {
                ctx.sh.add_with_contents(p, cl, depth, if rev { "allocate_prepared_rev" } else { "allocate_prepared" }, expect);
            }
            ctx.ev("prepared_commit");
            if before_cur != now.typed.cur.map(|c| c.chunk_start) {
                ctx.ev("prepared_commit_after_chunk_switch");
            }
        }
    }
    after(ctx, scope, Expect { single_alloc: true, ..Default::default() });
}

pub fn unexpected_panic_as(ctx: &mut Ctx, prop: &'static str, p: Box<dyn Any + Send>, whence: &str) {
    match classify(&p) {
        PanicKind::Msg(m) => ctx.viol(prop, format!("unexpected_panic:{}", msg_sig(&m)), format!("{whence}: {m}")),
        other => ctx.viol(prop, format!("unexpected_panic:{other:?}"), whence.to_string()),
    }
}

/// `prepare_slice_allocation::<T>` + `allocate_prepared_slice` for one element type.
fn prepared_slice_for<'a, A, S, T: Copy + PartialEq + std::fmt::Debug>(scope: &mut BumpScope<'a, A, S>, ctx: &mut Ctx, depth: u32, make: impl Fn(u64) -> T, tname: &'static str)
where
    A: MonHandle + BaseAllocator<S::GuaranteedAllocated>,
    S: BumpAllocatorSettings,
{
    let rev = ctx.rng.bool();
    let t = ctx.rng.chance(2, 5);
    let via_dyn = ctx.rng.chance(1, 4);
    let esz = size_of::<T>();
    let cap = (gen_size(ctx, align_of::<T>(), S::MIN_ALIGN) / esz).min(if ctx.p.small { 100 } else { 4000 });
    ctx.begin(format!("{}prepare_slice_allocation{}<{tname}> cap={cap}{}", if t { "try_" } else { "" }, if rev { "_rev" } else { "" }, if via_dyn { " via dyn" } else { "" }));
    let before = ctx.view.clone();
    let s: &BumpScope<'a, A, S> = &*scope;
    let d: &dyn BumpAllocatorCore = s;
    // returns (ptr to first element of the capacity region / end pointer, capacity)
    let r: Result<Result<(NonNull<T>, usize), AllocError>, Box<dyn Any + Send>> = guarded(|| {
        if rev {
            if via_dyn {
                if t { d.try_prepare_slice_allocation_rev::<T>(cap) } else { Ok(d.prepare_slice_allocation_rev::<T>(cap)) }
            } else if t {
                s.try_prepare_slice_allocation_rev::<T>(cap)
            } else {
                Ok(s.prepare_slice_allocation_rev::<T>(cap))
            }
        } else {
            let r = if via_dyn {
                if t { d.try_prepare_slice_allocation::<T>(cap) } else { Ok(d.prepare_slice_allocation::<T>(cap)) }
            } else if t {
                s.try_prepare_slice_allocation::<T>(cap)
            } else {
                Ok(s.prepare_slice_allocation::<T>(cap))
            };
            r.map(|p| (p.cast::<T>(), p.len()))
        }
    });
    let refused = ctx.refused();
    let (ptr, got) = match r {
        Ok(Ok(x)) => x,
        other => {
            let o = other.map(|x| x.map(|_| unreachable!()));
            super::typed::finish_typed(ctx, o, t, "prepare_slice_allocation", depth);
            after(ctx, scope, Expect { single_alloc: true, ..Default::default() });
            return;
        }
    };
    if refused {
        ctx.viol("C07", "ok_after_refusal:prepare_slice_allocation".into(), "returned normally although the base allocator refused".into());
    }
    if got < cap {
        ctx.viol("C15", "prepared_slice_capacity_too_small".into(), format!("asked {cap} got {got}"));
    }
    let now = snap(scope.stats(), scope.any_stats());
    // region: plain -> [ptr, ptr+got), rev -> [ptr-got, ptr)
    let (lo, hi) = if rev { (ptr.addr().get() - got * esz, ptr.addr().get()) } else { (ptr.addr().get(), ptr.addr().get() + got * esz) };
    let mut ok = true;
    match now.typed.cur {
        None => {
            ok = false;
            ctx.viol("C01", "prepared_range_without_chunk".into(), format!("{lo:#x}..{hi:#x}"));
        }
        Some(c) => {
            let (free_lo, free_hi) = if S::UP { (c.pos, c.content_end) } else { (c.content_start, c.pos) };
            if !(lo >= free_lo && hi <= free_hi) {
                ctx.viol("C01", "prepared_range_outside_free_space".into(), format!("range {lo:#x}..{hi:#x} free {free_lo:#x}..{free_hi:#x}"));
                ok = false;
            }
            if lo % align_of::<T>() != 0 {
                ctx.viol("C01", "misaligned_block:prepare_slice_allocation".into(), format!("{lo:#x} for {tname}"));
                ok = false;
            }
            // C15: preparing never moves the position of a chunk (only a later, empty chunk may become current)
            // chunks after the old current one are logically empty (their stale positions may be
            // reset while walking), so only the chunks up to the old current one are compared
            let upto = before.typed.cur.and_then(|c| before.typed.fwd.iter().position(|x| x.chunk_start == c.chunk_start)).map_or(0, |i| i + 1);
            for old in &before.typed.fwd[..upto] {
                if let Some(n) = now.typed.fwd.iter().find(|x| x.chunk_start == old.chunk_start) {
                    if n.pos != old.pos {
                        ctx.viol("C15", "prepare_moved_position".into(), format!("chunk {:#x}: {:#x} -> {:#x}", n.chunk_start, old.pos, n.pos));
                    }
                }
            }
        }
    }
    if !ok {
        after(ctx, scope, Expect { single_alloc: true, ..Default::default() });
        return;
    }
    // fill `len` elements the way a (rev) vector would, then commit
    let len = match ctx.rng.below(4) {
        0 => 0,
        1 => got.min(cap),
        2 => ctx.rng.range(0, got),
        _ => ctx.rng.range(0, cap.min(got)),
    };
    let seed = ctx.rng.next();
    let vals: Vec<T> = (0..len as u64).map(|i| make(seed.wrapping_add(i.wrapping_mul(0x9E37)))).collect();
    unsafe {
        let first = if rev { ptr.sub(len) } else { ptr };
        std::ptr::copy_nonoverlapping(vals.as_ptr(), first.as_ptr(), len);
    }
    let cur_before_commit = now.typed.cur.unwrap();
    let r = guarded(|| unsafe {
        if rev {
            if via_dyn { d.allocate_prepared_slice_rev::<T>(ptr, len, got) } else { s.allocate_prepared_slice_rev::<T>(ptr, len, got) }
        } else if via_dyn {
            d.allocate_prepared_slice::<T>(ptr, len, got)
        } else {
            s.allocate_prepared_slice::<T>(ptr, len, got)
        }
    });
    match r {
        Err(p) => unexpected_panic_as(ctx, "C15", p, "allocate_prepared_slice"),
        Ok(sl) => {
            let a = sl.cast::<u8>().addr().get();
            if sl.len() != len {
                ctx.viol("C15", "committed_slice_wrong_length".into(), format!("len {len} got {}", sl.len()));
            } else if a < lo || a + len * esz > hi {
                ctx.viol("C01", "prepared_block_outside_range".into(), format!("block {a:#x}+{} range {lo:#x}..{hi:#x}", len * esz));
            } else if len > 0 {
                let expect = super::typed::bytes_of_slice(&vals);
                ctx.sh.add_with_contents(sl.cast::<u8>(), Layout::array::<T>(len).unwrap(), depth, if rev { "allocate_prepared_slice_rev" } else { "allocate_prepared_slice" }, expect);
            }
            ctx.ev("prepared_commit");
            if before.typed.cur.map(|c| c.chunk_start) != Some(cur_before_commit.chunk_start) {
                ctx.ev("prepared_commit_after_chunk_switch");
            }
        }
    }
    after(ctx, scope, Expect { single_alloc: true, ..Default::default() });
    // C15: finalising advances the position by the contents plus at most alignment padding
    if let Some(c) = ctx.view.typed.cur {
        if c.chunk_start == cur_before_commit.chunk_start {
            let adv = if S::UP { c.pos.wrapping_sub(cur_before_commit.pos) } else { cur_before_commit.pos.wrapping_sub(c.pos) };
            let max = len * esz + (align_of::<T>() - 1) + (S::MIN_ALIGN - 1);
            if adv < len * esz || adv > max {
                ctx.viol("C15", "commit_advanced_position_wrongly".into(), format!("advanced {adv} for {} content bytes (allowed up to {max})", len * esz));
            }
        }
    }
}

pub fn op_prepared_slice<'a, A, S>(scope: &mut BumpScope<'a, A, S>, ctx: &mut Ctx, depth: u32)
where
    A: MonHandle + BaseAllocator<S::GuaranteedAllocated>,
    S: BumpAllocatorSettings,
{
    match ctx.rng.below(4) {
        0 => prepared_slice_for::<A, S, u8>(scope, ctx, depth, |x| x as u8 | 1, "u8"),
        1 => prepared_slice_for::<A, S, [u8; 3]>(scope, ctx, depth, |x| [x as u8 | 1, (x >> 8) as u8 | 1, (x >> 16) as u8 | 1], "[u8;3]"),
        2 => prepared_slice_for::<A, S, u32>(scope, ctx, depth, |x| x as u32 | 1, "u32"),
        _ => prepared_slice_for::<A, S, u64>(scope, ctx, depth, |x| x | 1, "u64"),
    }
}
