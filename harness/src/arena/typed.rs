//! Typed allocation methods (inherent forwarders of `BumpScope`), `alloc_try_with`, the
//! `BumpAllocatorTyped` layout methods, `dealloc`, `reserve`, and the `*_mut` helpers.

use super::level::*;
use super::*;
use bump_scope::BumpBox;
use std::ffi::{CStr, CString};
use std::ptr::NonNull;

#[derive(Clone, Copy, PartialEq, Eq, Debug)]
#[repr(C)]
pub struct Big(pub [u64; 50]);

pub fn bytes_of<T: Copy>(v: &T) -> Vec<u8> {
    unsafe { std::slice::from_raw_parts(v as *const T as *const u8, size_of::<T>()) }.to_vec()
}
pub fn bytes_of_slice<T: Copy>(v: &[T]) -> Vec<u8> {
    unsafe { std::slice::from_raw_parts(v.as_ptr() as *const u8, size_of_val(v)) }.to_vec()
}

pub type TypedOut = (NonNull<u8>, Layout, Vec<u8>);

/// Shared post-processing of one typed allocation: C07 outcome classification, registration.
pub fn finish_typed(ctx: &mut Ctx, r: Result<Result<TypedOut, AllocError>, Box<dyn Any + Send>>, is_try: bool, name: &'static str, depth: u32) -> bool {
    let refused = ctx.refused();
    match r {
        Ok(Ok((ptr, layout, expect))) => {
            if refused {
                ctx.viol("C07", format!("ok_after_refusal:{name}"), format!("{} returned normally although the base allocator refused memory", if is_try { "try_ method" } else { "panicking method" }));
            }
            if layout.size() > 0 {
                ctx.sh.add_with_contents(ptr, layout, depth, name, expect);
            }
            true
        }
        Ok(Err(_)) => {
            ctx.rep.count(if refused { "typed_err_refused" } else { "typed_err_other" });
            false
        }
        Err(p) => {
            match classify(&p) {
                PanicKind::AllocError => {
                    if is_try {
                        ctx.viol("C07", format!("try_method_panicked:{name}"), "allocation-error panic out of a try_ method".into());
                    } else if !refused {
                        ctx.rep.count("alloc_error_panic_without_refusal");
                    } else {
                        ctx.rep.count("panicking_method_panicked_on_refusal");
                    }
                }
                PanicKind::Msg(m) if (m == "capacity overflow" || m == "invalid slice layout") && !is_try => ctx.rep.count("capacity_overflow_panic"),
                PanicKind::Msg(m) => {
                    if is_try {
                        ctx.viol("C07", format!("try_method_panicked:{name}"), m);
                    } else {
                        ctx.viol(leak_prop(&ctx.p.prop.clone()), format!("unexpected_panic:{}", msg_sig(&m)), format!("{name}: {m}"));
                    }
                }
                k => ctx.viol(leak_prop(&ctx.p.prop.clone()), format!("unexpected_panic:{k:?}"), name.to_string()),
            }
            false
        }
    }
}

macro_rules! call {
    ($try:expr, $s:expr, $m:ident, $tm:ident ( $($a:expr),* )) => {
        if $try { $s.$tm($($a),*) } else { Ok($s.$m($($a),*)) }
    };
}

fn text(ctx: &mut Ctx, max: usize) -> String {
    let alphabet = ["a", "b", "z", "é", "ß", "€", "한", "😀", "\u{301}", " ", "0"];
    let n = ctx.rng.range(0, max);
    let mut s = String::new();
    while s.len() < n {
        s.push_str(alphabet[ctx.rng.below(alphabet.len())]);
    }
    s
}

pub struct LyingIter<I> {
    pub inner: I,
    pub lo: usize,
    pub hi: Option<usize>,
}
impl<I: Iterator> Iterator for LyingIter<I> {
    type Item = I::Item;
    fn next(&mut self) -> Option<I::Item> {
        self.inner.next()
    }
    fn size_hint(&self) -> (usize, Option<usize>) {
        (self.lo, self.hi)
    }
}

fn slice_len(ctx: &mut Ctx, elem: usize, min_align: usize) -> usize {
    let s = gen_size(ctx, elem, min_align);
    (s / elem).min(if ctx.p.small { 120 } else { 5000 })
}

pub fn op_typed<'a, A, S>(scope: &mut BumpScope<'a, A, S>, ctx: &mut Ctx, depth: u32)
where
    A: MonHandle + BaseAllocator<S::GuaranteedAllocated>,
    S: BumpAllocatorSettings,
{
    let v = ctx.rng.below(23);
    let t = ctx.rng.chance(2, 5);
    let x = ctx.rng.next();
    let s: &BumpScope<'a, A, S> = &*scope;
    let (bc, bn, had) = (ctx.view.typed.cur.map(|c| c.chunk_start), ctx.view.typed.fwd.len(), ctx.view.typed.cur.is_some());
    let mut single = true;
    fn raw<T>(b: BumpBox<'_, T>) -> NonNull<u8> {
        BumpBox::into_raw(b).cast()
    }
    fn raws<T>(b: BumpBox<'_, [T]>) -> NonNull<u8> {
        BumpBox::into_raw(b).cast()
    }
    let name: &'static str;
    let r: Result<Result<TypedOut, AllocError>, Box<dyn Any + Send>> = match v {
        0 => {
            name = "alloc<u32>";
            ctx.begin(format!("{}{name}", if t { "try_" } else { "" }));
            let val = x as u32;
            guarded(|| call!(t, s, alloc, try_alloc(val)).map(|b| (raw(b), Layout::new::<u32>(), bytes_of(&val))))
        }
        1 => {
            name = "alloc<u64>";
            ctx.begin(format!("{}{name}", if t { "try_" } else { "" }));
            let val = x;
            guarded(|| call!(t, s, alloc, try_alloc(val)).map(|b| (raw(b), Layout::new::<u64>(), bytes_of(&val))))
        }
        2 => {
            name = "alloc<[u8;3]>";
            ctx.begin(format!("{}{name}", if t { "try_" } else { "" }));
            let val = [x as u8 | 1, (x >> 8) as u8 | 1, (x >> 16) as u8 | 1];
            guarded(|| call!(t, s, alloc, try_alloc(val)).map(|b| (raw(b), Layout::new::<[u8; 3]>(), bytes_of(&val))))
        }
        3 => {
            name = "alloc<Big>";
            ctx.begin(format!("{}{name}", if t { "try_" } else { "" }));
            let mut val = Big([0; 50]);
            for (i, w) in val.0.iter_mut().enumerate() {
                *w = x.wrapping_mul(i as u64 + 3) | 1;
            }
            guarded(|| call!(t, s, alloc, try_alloc(val)).map(|b| (raw(b), Layout::new::<Big>(), bytes_of(&val))))
        }
        4 => {
            name = "alloc_with<u64>";
            ctx.begin(format!("{}{name}", if t { "try_" } else { "" }));
            let val = x | 1;
            guarded(|| call!(t, s, alloc_with, try_alloc_with(|| val)).map(|b| (raw(b), Layout::new::<u64>(), bytes_of(&val))))
        }
        5 => {
            name = "alloc_default<u64>";
            ctx.begin(format!("{}{name}", if t { "try_" } else { "" }));
            guarded(|| call!(t, s, alloc_default, try_alloc_default()).map(|b: BumpBox<u64>| (raw(b), Layout::new::<u64>(), bytes_of(&0u64))))
        }
        6 => {
            name = "alloc_uninit<u32>+init";
            ctx.begin(format!("{}{name}", if t { "try_" } else { "" }));
            let val = x as u32 | 1;
            guarded(|| call!(t, s, alloc_uninit, try_alloc_uninit()).map(|b| (raw(b.init(val)), Layout::new::<u32>(), bytes_of(&val))))
        }
        7 => {
            name = "alloc_slice_copy<u8>";
            let n = slice_len(ctx, 1, S::MIN_ALIGN);
            ctx.begin(format!("{}{name} len={n}", if t { "try_" } else { "" }));
            let src: Vec<u8> = (0..n).map(|i| (x as usize + i * 7) as u8 | 1).collect();
            guarded(|| call!(t, s, alloc_slice_copy, try_alloc_slice_copy(&src)).map(|b| (raws(b), Layout::for_value(&src[..]), src.clone())))
        }
        8 => {
            name = "alloc_slice_copy<u32>";
            let n = slice_len(ctx, 4, S::MIN_ALIGN);
            ctx.begin(format!("{}{name} len={n}", if t { "try_" } else { "" }));
            let src: Vec<u32> = (0..n).map(|i| (x as u32).wrapping_add(i as u32 * 77) | 1).collect();
            guarded(|| call!(t, s, alloc_slice_copy, try_alloc_slice_copy(&src)).map(|b| (raws(b), Layout::for_value(&src[..]), bytes_of_slice(&src))))
        }
        9 => {
            name = "alloc_slice_clone<u16>";
            let n = slice_len(ctx, 2, S::MIN_ALIGN);
            ctx.begin(format!("{}{name} len={n}", if t { "try_" } else { "" }));
            let src: Vec<u16> = (0..n).map(|i| (x as u16).wrapping_add(i as u16 * 3) | 1).collect();
            guarded(|| call!(t, s, alloc_slice_clone, try_alloc_slice_clone(&src)).map(|b| (raws(b), Layout::for_value(&src[..]), bytes_of_slice(&src))))
        }
        10 => {
            name = "alloc_slice_fill<u8>";
            let n = slice_len(ctx, 1, S::MIN_ALIGN);
            ctx.begin(format!("{}{name} len={n}", if t { "try_" } else { "" }));
            let val = x as u8 | 1;
            guarded(|| call!(t, s, alloc_slice_fill, try_alloc_slice_fill(n, val)).map(|b| (raws(b), Layout::array::<u8>(n).unwrap(), vec![val; n])))
        }
        11 => {
            name = "alloc_slice_fill_with<u32>";
            let n = slice_len(ctx, 4, S::MIN_ALIGN);
            ctx.begin(format!("{}{name} len={n}", if t { "try_" } else { "" }));
            let exp: Vec<u32> = (0..n as u32).map(|i| i.wrapping_mul(x as u32) | 1).collect();
            let mut i = 0u32;
            let f = move || {
                let r = i.wrapping_mul(x as u32) | 1;
                i += 1;
                r
            };
            guarded(|| call!(t, s, alloc_slice_fill_with, try_alloc_slice_fill_with(n, f)).map(|b| (raws(b), Layout::array::<u32>(n).unwrap(), bytes_of_slice(&exp))))
        }
        12 => {
            name = "alloc_slice_move<u32>";
            let n = slice_len(ctx, 4, S::MIN_ALIGN).min(400);
            ctx.begin(format!("{}{name} len={n}", if t { "try_" } else { "" }));
            let src: Vec<u32> = (0..n).map(|i| (x as u32) ^ (i as u32 * 13) | 1).collect();
            let exp = bytes_of_slice(&src);
            guarded(|| call!(t, s, alloc_slice_move, try_alloc_slice_move(src)).map(|b| (raws(b), Layout::array::<u32>(n).unwrap(), exp)))
        }
        13 => {
            name = "alloc_str";
            let txt = text(ctx, if ctx.p.small { 60 } else { 300 });
            ctx.begin(format!("{}{name} len={}", if t { "try_" } else { "" }, txt.len()));
            guarded(|| call!(t, s, alloc_str, try_alloc_str(&txt)).map(|b| (BumpBox::into_raw(b).cast::<u8>(), Layout::for_value(txt.as_bytes()), txt.as_bytes().to_vec())))
        }
        14 => {
            name = "alloc_fmt";
            single = false;
            let txt = text(ctx, if ctx.p.small { 40 } else { 200 });
            ctx.begin(format!("{}{name} len~{}", if t { "try_" } else { "" }, txt.len()));
            let exp = format!("{txt}-{x}-{txt}");
            guarded(|| call!(t, s, alloc_fmt, try_alloc_fmt(format_args!("{txt}-{x}-{txt}"))).map(|b| (BumpBox::into_raw(b).cast::<u8>(), Layout::for_value(exp.as_bytes()), exp.as_bytes().to_vec())))
        }
        15 => {
            name = "alloc_cstr";
            let txt = text(ctx, 80).replace('\0', "");
            let c = CString::new(txt).unwrap();
            ctx.begin(format!("{}{name} len={}", if t { "try_" } else { "" }, c.as_bytes().len()));
            guarded(|| {
                call!(t, s, alloc_cstr, try_alloc_cstr(&c)).map(|r: &CStr| {
                    let b = r.to_bytes_with_nul();
                    (NonNull::new(b.as_ptr() as *mut u8).unwrap(), Layout::for_value(b), c.as_bytes_with_nul().to_vec())
                })
            })
        }
        16 => {
            name = "alloc_cstr_from_str";
            let mut txt = text(ctx, 80);
            if ctx.rng.bool() && !txt.is_empty() {
                let mut k = ctx.rng.below(txt.len());
                while !txt.is_char_boundary(k) {
                    k -= 1;
                }
                txt.insert(k, '\0');
            }
            ctx.begin(format!("{}{name} len={}", if t { "try_" } else { "" }, txt.len()));
            let mut exp: Vec<u8> = txt.as_bytes().iter().copied().take_while(|&b| b != 0).collect();
            exp.push(0);
            guarded(|| {
                call!(t, s, alloc_cstr_from_str, try_alloc_cstr_from_str(&txt)).map(|r: &CStr| {
                    let b = r.to_bytes_with_nul();
                    (NonNull::new(b.as_ptr() as *mut u8).unwrap(), Layout::for_value(b), exp.clone())
                })
            })
        }
        17 => {
            name = "alloc_cstr_fmt";
            single = false;
            let txt = text(ctx, 60);
            ctx.begin(format!("{}{name}", if t { "try_" } else { "" }));
            let full = format!("{txt}{}\0tail{x}", x % 1000);
            let mut exp: Vec<u8> = full.as_bytes().iter().copied().take_while(|&b| b != 0).collect();
            exp.push(0);
            guarded(|| {
                call!(t, s, alloc_cstr_fmt, try_alloc_cstr_fmt(format_args!("{txt}{}\0tail{x}", x % 1000))).map(|r: &CStr| {
                    let b = r.to_bytes_with_nul();
                    (NonNull::new(b.as_ptr() as *mut u8).unwrap(), Layout::for_value(b), exp.clone())
                })
            })
        }
        18 | 19 => {
            name = if v == 18 { "alloc_iter<u32>" } else { "alloc_iter<u32>(lying size_hint)" };
            single = false;
            let n = slice_len(ctx, 4, S::MIN_ALIGN).min(600);
            ctx.begin(format!("{}{name} len={n}", if t { "try_" } else { "" }));
            let src: Vec<u32> = (0..n).map(|i| (x as u32).wrapping_mul(i as u32 + 1) | 1).collect();
            let exp = bytes_of_slice(&src);
            let (lo, hi) = if v == 18 { (n, Some(n)) } else { *ctx.rng.pick(&[(0, None), (0, Some(0)), (n / 2, Some(n / 2)), (n * 2 + 3, None)]) };
            let it = LyingIter { inner: src.into_iter(), lo, hi };
            guarded(|| call!(t, s, alloc_iter, try_alloc_iter(it)).map(|b| (raws(b), Layout::array::<u32>(n).unwrap(), exp)))
        }
        20 => {
            name = "alloc_iter_exact<u16>";
            let n = slice_len(ctx, 2, S::MIN_ALIGN).min(600);
            ctx.begin(format!("{}{name} len={n}", if t { "try_" } else { "" }));
            let src: Vec<u16> = (0..n).map(|i| (x as u16).wrapping_add(i as u16) | 1).collect();
            let exp = bytes_of_slice(&src);
            guarded(|| call!(t, s, alloc_iter_exact, try_alloc_iter_exact(src)).map(|b| (raws(b), Layout::array::<u16>(n).unwrap(), exp)))
        }
        21 => {
            name = "alloc_uninit_slice<u16>+init_copy";
            let n = slice_len(ctx, 2, S::MIN_ALIGN);
            ctx.begin(format!("{}{name} len={n}", if t { "try_" } else { "" }));
            let src: Vec<u16> = (0..n).map(|i| (x as u16) ^ (i as u16) | 1).collect();
            guarded(|| call!(t, s, alloc_uninit_slice, try_alloc_uninit_slice(n)).map(|b| (raws(b.init_copy(&src)), Layout::array::<u16>(n).unwrap(), bytes_of_slice(&src))))
        }
        _ => {
            name = "alloc_uninit_slice_for<u32>+init_copy";
            let n = slice_len(ctx, 4, S::MIN_ALIGN);
            ctx.begin(format!("{}{name} len={n}", if t { "try_" } else { "" }));
            let src: Vec<u32> = (0..n).map(|i| (x as u32) ^ (i as u32 * 5) | 1).collect();
            guarded(|| call!(t, s, alloc_uninit_slice_for, try_alloc_uninit_slice_for(&src)).map(|b| (raws(b.init_copy(&src)), Layout::array::<u32>(n).unwrap(), bytes_of_slice(&src))))
        }
    };
    finish_typed(ctx, r, t, name, depth);
    after(ctx, scope, Expect { single_alloc: single, ..Default::default() });
    post_alloc_event(ctx, bc, bn, had);
}

type Payload = [u8; 400];

pub fn op_try_with<'a, A, S>(scope: &mut BumpScope<'a, A, S>, ctx: &mut Ctx, depth: u32)
where
    A: MonHandle + BaseAllocator<S::GuaranteedAllocated>,
    S: BumpAllocatorSettings,
{
    let t = ctx.rng.chance(2, 5);
    let want_ok = ctx.rng.bool();
    let inner_allocs = ctx.rng.chance(1, 3);
    let small = ctx.rng.bool();
    let x = ctx.rng.next();
    // every third inner allocation is as large as what is left of the current chunk: together with the slot it cannot
    // fit, so the closure's block lands in another chunk while the slot stays in this one
    let cross = inner_allocs && ctx.rng.chance(1, 3);
    let cur_rem = ctx.view.typed.cur.map_or(0, |c| c.remaining).min(1 << 16);
    let inner_size = move |dflt: usize| if cross { cur_rem.max(dflt) } else { dflt };
    ctx.begin(format!(
        "{}alloc_try_with<{}> closure returns {} {}",
        if t { "try_" } else { "" },
        if small { "u64" } else { "[u8;400]" },
        if want_ok { "Ok" } else { "Err" },
        if cross { "after an inner allocation that leaves the chunk" } else if inner_allocs { "after allocating inside" } else { "without allocating" }
    ));
    let entry = tuple_of(&ctx.view);
    let s: &BumpScope<'a, A, S> = &*scope;
    // inner allocations are registered after the call returned (the closure must not touch ctx)
    let mut inner: Vec<(NonNull<u8>, Layout)> = Vec::new();
    let inner_ref = &mut inner;
    let ran = std::cell::Cell::new(false);
    let ran_ref = &ran;
    let r: Result<Result<Option<TypedOut>, AllocError>, Box<dyn Any + Send>> = if small {
        let val = x | 1;
        let f = move || -> Result<u64, u32> {
            ran_ref.set(true);
            if inner_allocs {
                let l = Layout::from_size_align(inner_size(24), 8).unwrap();
                if let Ok(p) = s.allocate(l) {
                    inner_ref.push((p.cast(), l));
                }
            }
            if want_ok { Ok(val) } else { Err(7) }
        };
        guarded(|| {
            let r = if t { s.try_alloc_try_with(f) } else { Ok(s.alloc_try_with(f)) };
            r.map(|rr| rr.ok().map(|b| (BumpBox::into_raw(b).cast::<u8>(), Layout::new::<u64>(), bytes_of(&val))))
        })
    } else {
        let mut val: Payload = [0; 400];
        for (i, b) in val.iter_mut().enumerate() {
            *b = (x as usize + i * 3) as u8 | 1;
        }
        let f = move || -> Result<Payload, u32> {
            ran_ref.set(true);
            if inner_allocs {
                let l = Layout::from_size_align(inner_size(40), 4).unwrap();
                if let Ok(p) = s.allocate(l) {
                    inner_ref.push((p.cast(), l));
                }
            }
            if want_ok { Ok(val) } else { Err(9) }
        };
        guarded(|| {
            let r = if t { s.try_alloc_try_with(f) } else { Ok(s.alloc_try_with(f)) };
            r.map(|rr| rr.ok().map(|b| (BumpBox::into_raw(b).cast::<u8>(), Layout::new::<Payload>(), bytes_of(&val))))
        })
    };
    // a refusal counts against the outer allocation only if the closure never ran
    // (once it runs, the outer allocation has succeeded and refusals belong to the closure's own calls)
    let refused = ctx.refused() && !ran.get();
    let mut rewound = false;
    match r {
        Ok(Ok(Some(out))) => {
            if ctx.refused() && ran.get() {
                ctx.mon.borrow_mut().refused_in_op = 0;
            }
            finish_typed(ctx, Ok(Ok(out)), t, "alloc_try_with", depth);
        }
        Ok(Ok(None)) => {
            if refused {
                ctx.viol("C07", "ok_after_refusal:alloc_try_with".into(), "closure result delivered although the base allocator refused".into());
            }
            rewound = inner.is_empty();
        }
        other => {
            let o = other.map(|x| x.map(|_| unreachable!()));
            finish_typed(ctx, o, t, "alloc_try_with", depth);
        }
    }
    for (p, l) in inner {
        unsafe { reg(ctx, p, l.size(), l, depth, "allocate", true) };
    }
    after(ctx, scope, Expect { may_decrease: false, ..Default::default() });
    if rewound && !want_ok {
        check_restored(ctx, entry, "alloc_try_with_err", S::UP);
        ctx.ev("try_with_err_rewind");
    }
}

pub fn op_typed_layout<'a, A, S>(scope: &mut BumpScope<'a, A, S>, ctx: &mut Ctx, depth: u32)
where
    A: MonHandle + BaseAllocator<S::GuaranteedAllocated>,
    S: BumpAllocatorSettings,
{
    let v = ctx.rng.below(4);
    let t = ctx.rng.chance(1, 2);
    let via_dyn = ctx.rng.chance(1, 3);
    let (bc, bn, had) = (ctx.view.typed.cur.map(|c| c.chunk_start), ctx.view.typed.fwd.len(), ctx.view.typed.cur.is_some());
    let s: &BumpScope<'a, A, S> = &*scope;
    let d: &dyn BumpAllocatorCore = s;
    macro_rules! both {
        ($m:ident, $tm:ident, [$($g:ty),*] ( $($a:expr),* )) => {
            if via_dyn {
                if t { d.$tm::<$($g),*>($($a),*) } else { Ok(d.$m::<$($g),*>($($a),*)) }
            } else if t { s.$tm::<$($g),*>($($a),*) } else { Ok(s.$m::<$($g),*>($($a),*)) }
        };
    }
    let name: &'static str;
    let r: Result<Result<(NonNull<u8>, Layout), AllocError>, Box<dyn Any + Send>> = match v {
        0 => {
            name = "allocate_layout";
            let l = gen_layout(ctx, S::MIN_ALIGN);
            ctx.begin(format!("{}{name} size={} align={}{}", if t { "try_" } else { "" }, l.size(), l.align(), if via_dyn { " via dyn" } else { "" }));
            guarded(|| both!(allocate_layout, try_allocate_layout, [](l)).map(|p| (p, l)))
        }
        1 => {
            name = "allocate_sized<u64>";
            ctx.begin(format!("{}{name}{}", if t { "try_" } else { "" }, if via_dyn { " via dyn" } else { "" }));
            guarded(|| both!(allocate_sized, try_allocate_sized, [u64]()).map(|p| (p.cast(), Layout::new::<u64>())))
        }
        2 => {
            name = "allocate_slice<u32>";
            let n = slice_len(ctx, 4, S::MIN_ALIGN);
            ctx.begin(format!("{}{name} len={n}{}", if t { "try_" } else { "" }, if via_dyn { " via dyn" } else { "" }));
            guarded(|| both!(allocate_slice, try_allocate_slice, [u32](n)).map(|p| (p.cast(), Layout::array::<u32>(n).unwrap())))
        }
        _ => {
            name = "allocate_slice_for<u16>";
            let n = slice_len(ctx, 2, S::MIN_ALIGN);
            let src = vec![0u16; n];
            ctx.begin(format!("{}{name} len={n}{}", if t { "try_" } else { "" }, if via_dyn { " via dyn" } else { "" }));
            guarded(|| both!(allocate_slice_for, try_allocate_slice_for, [u16](&src)).map(|p| (p.cast(), Layout::array::<u16>(n).unwrap())))
        }
    };
    let refused = ctx.refused();
    match r {
        Ok(Ok((p, l))) => {
            if refused {
                ctx.viol("C07", format!("ok_after_refusal:{name}"), "returned normally although the base allocator refused".into());
            }
            if l.size() > 0 {
                unsafe { reg(ctx, p, l.size(), l, depth, name, false) };
            }
        }
        other => {
            let o = other.map(|x| x.map(|_| unreachable!()));
            finish_typed(ctx, o, t, name, depth);
        }
    }
    after(ctx, scope, Expect { single_alloc: true, ..Default::default() });
    post_alloc_event(ctx, bc, bn, had);
}

pub fn op_box_dealloc<'a, A, S>(scope: &mut BumpScope<'a, A, S>, ctx: &mut Ctx)
where
    A: MonHandle + BaseAllocator<S::GuaranteedAllocated>,
    S: BumpAllocatorSettings,
{
    let n = ctx.sh.blocks.len();
    if n == 0 {
        return;
    }
    let start = ctx.rng.below(n);
    let Some(i) = (0..n).rev().map(|k| (start + k) % n).find(|&i| {
        let b = &ctx.sh.blocks[i];
        !b.ro && b.len > 0 && b.len == b.layout.size() && matches!(b.layout.align(), 1 | 2 | 4 | 8) && b.len % b.layout.align() == 0
    }) else {
        return;
    };
    let interior = ctx.is_interior(i);
    let b = ctx.sh.take(i);
    ctx.begin(format!("dealloc(BumpBox) block#{} size={} align={}", b.id, b.len, b.layout.align()));
    unsafe { Shadow::dirty(&b) };
    let before = ctx.view.typed.allocated;
    let s: &BumpScope<'a, A, S> = &*scope;
    let r = guarded(|| unsafe {
        match b.layout.align() {
            1 => s.dealloc(BumpBox::<[u8]>::from_raw(NonNull::slice_from_raw_parts(b.ptr, b.len))),
            2 => s.dealloc(BumpBox::<[u16]>::from_raw(NonNull::slice_from_raw_parts(b.ptr.cast(), b.len / 2))),
            4 => s.dealloc(BumpBox::<[u32]>::from_raw(NonNull::slice_from_raw_parts(b.ptr.cast(), b.len / 4))),
            _ => s.dealloc(BumpBox::<[u64]>::from_raw(NonNull::slice_from_raw_parts(b.ptr.cast(), b.len / 8))),
        }
    });
    if let Err(p) = r {
        unexpected_panic(ctx, p, "dealloc(BumpBox)");
    }
    after(ctx, scope, Expect { may_decrease: S::DEALLOCATES && !interior, no_release: true, ..Default::default() });
    ctx.ev(if ctx.view.typed.allocated < before { "dealloc_reclaim" } else { "dealloc_noop" });
}

pub fn op_reserve<'a, A, S>(scope: &mut BumpScope<'a, A, S>, ctx: &mut Ctx)
where
    A: MonHandle + BaseAllocator<S::GuaranteedAllocated>,
    S: BumpAllocatorSettings,
{
    let t = ctx.rng.bool();
    let via_dyn = ctx.rng.chance(1, 4);
    let rem = ctx.view.typed.remaining;
    let n = match ctx.rng.below(6) {
        0 => 0,
        1 => ctx.rng.range(1, 100),
        2 => rem,
        3 => rem + 1,
        4 => rem + ctx.rng.range(1, if ctx.p.small { 600 } else { 5000 }),
        _ => {
            // (a still unallocated arena takes a different path through reserve: probed much more often there)
            let unallocated = ctx.view.typed.cur.is_none();
            if ctx.rng.chance(if unallocated { 3 } else { 1 }, 5) {
                // unrepresentable: must be reported as an error, never accepted
                *ctx.rng.pick(&[usize::MAX, usize::MAX - 7, isize::MAX as usize + 1, isize::MAX as usize - 3])
            } else {
                ctx.rng.range(0, if ctx.p.small { 900 } else { 9000 })
            }
        }
    };
    ctx.begin(format!("{}reserve {n}{}", if t { "try_" } else { "" }, if via_dyn { " via dyn" } else { "" }));
    let before = ctx.view.clone();
    let s: &BumpScope<'a, A, S> = &*scope;
    let r = guarded(|| {
        if via_dyn {
            let d: &dyn BumpAllocatorCore = s;
            if t { d.try_reserve(n) } else { Ok(d.reserve(n)) }
        } else if t {
            s.try_reserve(n)
        } else {
            Ok(s.reserve(n))
        }
    });
    let refused = ctx.refused();
    let mut ok = false;
    match r {
        Ok(Ok(())) => {
            ok = true;
            if refused {
                ctx.viol("C07", "ok_after_refusal:reserve".into(), "reserve returned normally although the base allocator refused".into());
            }
        }
        other => {
            let o = other.map(|x| x.map(|_| unreachable!()));
            finish_typed(ctx, o, t, "reserve", 0);
        }
    }
    // the trait-object implementation reserves through `prepare_allocation`, which may switch chunks
    after(ctx, scope, Expect { single_alloc: true, ..Default::default() });
    if ok && ctx.allocs_in_op() > 0 {
        ctx.ev("reserve_new_chunk");
        if !via_dyn {
            // C12: the chunk created for the missing rest must hold that rest
            let cur_i = before.typed.cur.and_then(|c| before.typed.fwd.iter().position(|x| x.chunk_start == c.chunk_start));
            let have: usize = match cur_i {
                Some(ci) => before.typed.cur.unwrap().remaining + before.typed.fwd[ci + 1..].iter().map(|c| c.capacity).sum::<usize>(),
                None => 0,
            };
            let rest = n.saturating_sub(have);
            if let Some(last) = ctx.view.typed.fwd.last() {
                if last.capacity < rest {
                    ctx.viol("C12", "reserved_chunk_too_small".into(), format!("reserve({n}) with {have} available created a chunk of capacity {} < {rest}", last.capacity));
                }
            }
        }
    }
    if ok && n > isize::MAX as usize - 4096 {
        ctx.viol("C07", "reserve_accepted_unrepresentable_size".into(), format!("reserve({n}) returned normally"));
    } else if ok && !via_dyn && ctx.view.typed.remaining < n {
        ctx.viol("C12", "reserve_did_not_provide_capacity".into(), format!("reserve({n}) returned Ok but remaining() is {}", ctx.view.typed.remaining));
    }
}

pub fn op_mut_helpers<'a, A, S>(scope: &mut BumpScope<'a, A, S>, ctx: &mut Ctx, depth: u32)
where
    A: MonHandle + BaseAllocator<S::GuaranteedAllocated>,
    S: BumpAllocatorSettings,
{
    let v = ctx.rng.below(6);
    let t = ctx.rng.chance(2, 5);
    let x = ctx.rng.next();
    let entry = tuple_of(&ctx.view);
    let (bc, bn, had) = (ctx.view.typed.cur.map(|c| c.chunk_start), ctx.view.typed.fwd.len(), ctx.view.typed.cur.is_some());
    let name: &'static str;
    let mut err_rewind = false;
    let r: Result<Result<TypedOut, AllocError>, Box<dyn Any + Send>> = match v {
        0 | 1 => {
            let rev = v == 1;
            name = if rev { "alloc_iter_mut_rev<u32>" } else { "alloc_iter_mut<u32>" };
            let n = slice_len(ctx, 4, S::MIN_ALIGN).min(900);
            let (lo, hi) = *ctx.rng.pick(&[(n, Some(n)), (0, None), (0, Some(0)), (n / 2, Some(n / 2)), (n * 2 + 3, None)]);
            ctx.begin(format!("{}{name} len={n} hint=({lo},{hi:?})", if t { "try_" } else { "" }));
            let src: Vec<u32> = (0..n).map(|i| (x as u32).wrapping_mul(i as u32 + 1) | 1).collect();
            let mut e = src.clone();
            if rev {
                e.reverse();
            }
            let exp = bytes_of_slice(&e);
            let it = LyingIter { inner: src.into_iter(), lo, hi };
            guarded(|| {
                let r = if rev { call!(t, scope, alloc_iter_mut_rev, try_alloc_iter_mut_rev(it)) } else { call!(t, scope, alloc_iter_mut, try_alloc_iter_mut(it)) };
                r.map(|b| (BumpBox::into_raw(b).cast::<u8>(), Layout::array::<u32>(n).unwrap(), exp))
            })
        }
        2 => {
            name = "alloc_fmt_mut";
            let txt = text(ctx, if ctx.p.small { 60 } else { 400 });
            ctx.begin(format!("{}{name} len~{}", if t { "try_" } else { "" }, 2 * txt.len()));
            let exp = format!("{txt}={x}={txt}");
            guarded(|| call!(t, scope, alloc_fmt_mut, try_alloc_fmt_mut(format_args!("{txt}={x}={txt}"))).map(|b| (BumpBox::into_raw(b).cast::<u8>(), Layout::for_value(exp.as_bytes()), exp.as_bytes().to_vec())))
        }
        3 => {
            name = "alloc_cstr_fmt_mut";
            let txt = text(ctx, 80);
            ctx.begin(format!("{}{name}", if t { "try_" } else { "" }));
            let full = format!("{txt}{}{}", x % 97, if x % 3 == 0 { "\0hidden" } else { "" });
            let mut exp: Vec<u8> = full.as_bytes().iter().copied().take_while(|&b| b != 0).collect();
            exp.push(0);
            let tail = if x % 3 == 0 { "\0hidden" } else { "" };
            guarded(|| {
                call!(t, scope, alloc_cstr_fmt_mut, try_alloc_cstr_fmt_mut(format_args!("{txt}{}{tail}", x % 97))).map(|r: &CStr| {
                    let b = r.to_bytes_with_nul();
                    (NonNull::new(b.as_ptr() as *mut u8).unwrap(), Layout::for_value(b), exp.clone())
                })
            })
        }
        _ => {
            let want_ok = v == 4;
            name = "alloc_try_with_mut<[u8;400]>";
            ctx.begin(format!("{}{name} closure returns {}", if t { "try_" } else { "" }, if want_ok { "Ok" } else { "Err" }));
            let mut val: Payload = [0; 400];
            for (i, b) in val.iter_mut().enumerate() {
                *b = (x as usize + i * 5) as u8 | 1;
            }
            let f = move || -> Result<Payload, u32> { if want_ok { Ok(val) } else { Err(3) } };
            let r = guarded(|| if t { scope.try_alloc_try_with_mut(f) } else { Ok(scope.alloc_try_with_mut(f)) });
            match r {
                Ok(Ok(Ok(b))) => Ok(Ok((BumpBox::into_raw(b).cast::<u8>(), Layout::new::<Payload>(), bytes_of(&val)))),
                Ok(Ok(Err(_))) => {
                    err_rewind = true;
                    Ok(Ok((NonNull::dangling(), Layout::new::<()>(), Vec::new())))
                }
                Ok(Err(e)) => Ok(Err(e)),
                Err(p) => Err(p),
            }
        }
    };
    if err_rewind && ctx.refused() {
        ctx.viol("C07", "ok_after_refusal:alloc_try_with_mut".into(), "closure result delivered although the base allocator refused".into());
    }
    finish_typed(ctx, r, t, name, depth);
    after(ctx, scope, Expect::default());
    if err_rewind {
        check_restored(ctx, entry, "alloc_try_with_mut_err", S::UP);
        ctx.ev("try_with_err_rewind");
    }
    ctx.ev("mut_helper");
    post_alloc_event(ctx, bc, bn, had);
}
