//! Collection-buffer sessions: a `BumpVec`/`BumpString` lives across several sub-operations that are
//! interleaved with raw allocations through the same shared scope reference.

use super::level::*;
use super::*;
use bump_scope::{BumpBox, BumpString, BumpVec};
use std::ptr::NonNull;

fn vec_extra<T, B: BumpAllocatorTyped>(v: &BumpVec<T, B>) -> (usize, usize, usize, &'static str) {
    if v.capacity() == 0 || size_of::<T>() == 0 {
        (0, 0, 1, "BumpVec buffer")
    } else {
        (v.as_non_null().addr().get(), v.capacity() * size_of::<T>(), align_of::<T>(), "BumpVec buffer")
    }
}

pub fn op_session<'a, A, S>(scope: &mut BumpScope<'a, A, S>, ctx: &mut Ctx, depth: u32)
where
    A: MonHandle + BaseAllocator<S::GuaranteedAllocated>,
    S: BumpAllocatorSettings,
{
    if ctx.rng.chance(1, 3) {
        return string_session(scope, ctx, depth);
    }
    let s: &BumpScope<'a, A, S> = &*scope;
    let steps = ctx.rng.range(2, 9);
    let x = ctx.rng.next() as u32;
    ctx.begin("session: BumpVec<u32> new".into());
    let cap0 = if ctx.rng.bool() { 0 } else { ctx.rng.range(1, 40) };
    let mut model: Vec<u32> = Vec::new();
    let r = guarded(|| BumpVec::<u32, &BumpScope<'a, A, S>>::try_with_capacity_in(cap0, s));
    let mut v = match r {
        Ok(Ok(v)) => v,
        Ok(Err(_)) => {
            after(ctx, s, Expect { may_decrease: true, ..Default::default() });
            return;
        }
        Err(p) => {
            ctx.viol("C07", "try_method_panicked:BumpVec::try_with_capacity_in".into(), format!("{:?}", classify(&p)));
            after(ctx, s, Expect { may_decrease: true, ..Default::default() });
            return;
        }
    };
    ctx.extras.push(vec_extra(&v));
    after(ctx, s, Expect { may_decrease: true, ..Default::default() });
    ctx.ev("session");
    let mut k = 0u32;
    for _ in 0..steps {
        let sub = ctx.rng.below(8);
        let before_ptr = v.as_non_null().addr().get();
        let before_cap = v.capacity();
        match sub {
            0 | 1 => {
                let n = ctx.rng.range(1, if ctx.p.small { 30 } else { 300 });
                ctx.begin(format!("session: try_extend_from_slice_copy {n}"));
                let add: Vec<u32> = (0..n as u32).map(|i| x.wrapping_add(k + i) | 1).collect();
                k += n as u32;
                let r = guarded(|| v.try_extend_from_slice_copy(&add));
                match r {
                    Ok(Ok(())) => {
                        if ctx.refused() {
                            ctx.viol("C07", "ok_after_refusal:BumpVec::try_extend_from_slice_copy".into(), String::new());
                        }
                        model.extend_from_slice(&add)
                    }
                    Ok(Err(_)) => {}
                    Err(p) => ctx.viol("C07", "try_method_panicked:BumpVec::try_extend_from_slice_copy".into(), format!("{:?}", classify(&p))),
                }
            }
            2 => {
                ctx.begin("session: push".into());
                let val = x.wrapping_add(k) | 1;
                k += 1;
                let r = guarded(|| v.push(val));
                match r {
                    Ok(()) => {
                        if ctx.refused() {
                            ctx.viol("C07", "ok_after_refusal:BumpVec::push".into(), String::new());
                        }
                        model.push(val)
                    }
                    Err(p) => {
                        if classify(&p) != PanicKind::AllocError || !ctx.refused() {
                            unexpected_panic(ctx, p, "BumpVec::push");
                        }
                    }
                }
            }
            3 => {
                let n = ctx.rng.range(0, if ctx.p.small { 60 } else { 600 });
                ctx.begin(format!("session: try_reserve {n}"));
                let r = guarded(|| v.try_reserve(n));
                match r {
                    Ok(Ok(())) => {
                        if v.capacity() < v.len() + n {
                            ctx.viol("C08", "reserve_promise_not_kept:BumpVec".into(), format!("len {} + {n} > cap {}", v.len(), v.capacity()));
                        }
                    }
                    Ok(Err(_)) => {}
                    Err(p) => ctx.viol("C07", "try_method_panicked:BumpVec::try_reserve".into(), format!("{:?}", classify(&p))),
                }
            }
            4 => {
                ctx.begin("session: shrink_to_fit".into());
                v.shrink_to_fit();
            }
            5 => {
                let n = ctx.rng.range(0, model.len());
                ctx.begin(format!("session: truncate {n}"));
                v.truncate(n);
                model.truncate(n);
            }
            6 => {
                // an interleaved raw allocation through the same shared reference
                let l = gen_layout(ctx, S::MIN_ALIGN);
                ctx.begin(format!("session: interleaved allocate size={} align={}", l.size(), l.align()));
                if let Ok(Ok(p)) = guarded(|| s.allocate(l)) {
                    unsafe { reg(ctx, p.cast(), l.size(), l, depth, "allocate", true) };
                }
            }
            _ => {
                // split the vector; the tail becomes an independent block
                if model.len() >= 2 {
                    let at = ctx.rng.range(1, model.len() - 1);
                    ctx.begin(format!("session: split_off {at}.."));
                    let tail = v.split_off(at..);
                    let mtail = model.split_off(at);
                    if &tail[..] != &mtail[..] {
                        ctx.viol("C16", "split_off_tail_contents:BumpVec".into(), format!("at {at}"));
                    }
                    let b = tail.into_boxed_slice();
                    let n = b.len();
                    let p = BumpBox::into_raw(b).cast::<u8>();
                    ctx.sh.add_with_contents(p, Layout::array::<u32>(n).unwrap(), depth, "BumpVec::split_off tail", super::typed::bytes_of_slice(&mtail));
                } else {
                    continue;
                }
            }
        }
        *ctx.extras.last_mut().unwrap() = vec_extra(&v);
        if &v[..] != &model[..] {
            ctx.viol("C02", "collection_contents_changed:BumpVec".into(), format!("after {}", ctx.desc));
            model = v.to_vec();
        }
        if v.capacity() < v.len() {
            ctx.viol("C08", "capacity_below_len:BumpVec".into(), format!("{} < {}", v.capacity(), v.len()));
        }
        let _ = (before_ptr, before_cap);
        after(ctx, s, Expect { may_decrease: true, ..Default::default() });
    }
    // end of session
    ctx.extras.pop();
    match ctx.rng.below(4) {
        0 => {
            ctx.begin("session: drop BumpVec".into());
            drop(v);
        }
        1 => {
            ctx.begin("session: into_boxed_slice".into());
            let b = v.into_boxed_slice();
            let n = b.len();
            let p = BumpBox::into_raw(b).cast::<u8>();
            if n > 0 {
                ctx.sh.add_with_contents(p, Layout::array::<u32>(n).unwrap(), depth, "BumpVec::into_boxed_slice", super::typed::bytes_of_slice(&model));
            }
        }
        2 => {
            ctx.begin("session: into_fixed_vec + leak capacity".into());
            let f = v.into_fixed_vec();
            let (n, cap) = (f.len(), f.capacity());
            let p = f.as_non_null().cast::<u8>();
            std::mem::forget(f);
            if cap > 0 {
                // the whole capacity stays owned by the harness; only the initialised part has known contents
                let mut exp = super::typed::bytes_of_slice(&model);
                let lay = Layout::array::<u32>(cap).unwrap();
                unsafe {
                    // pattern the spare capacity so that the block is fully defined
                    let spare = p.add(n * 4);
                    let pat = crate::shadow::pattern(n as u32 ^ 0x55, (cap - n) * 4);
                    std::ptr::copy_nonoverlapping(pat.as_ptr(), spare.as_ptr(), pat.len());
                    exp.extend_from_slice(&pat);
                }
                ctx.sh.add_with_contents(p, lay, depth, "BumpVec::into_fixed_vec", exp);
            }
        }
        _ => {
            ctx.begin("session: into_parts/from_parts round trip, then drop".into());
            let (f, a) = v.into_parts();
            let v2 = BumpVec::from_parts(f, a);
            if &v2[..] != &model[..] {
                ctx.viol("C02", "collection_contents_changed:BumpVec::from_parts".into(), String::new());
            }
            drop(v2);
        }
    }
    after(ctx, s, Expect { may_decrease: true, ..Default::default() });
}

fn string_session<'a, A, S>(scope: &mut BumpScope<'a, A, S>, ctx: &mut Ctx, depth: u32)
where
    A: MonHandle + BaseAllocator<S::GuaranteedAllocated>,
    S: BumpAllocatorSettings,
{
    let s: &BumpScope<'a, A, S> = &*scope;
    ctx.begin("session: BumpString new".into());
    let mut v: BumpString<&BumpScope<'a, A, S>> = BumpString::new_in(s);
    let mut model = String::new();
    ctx.extras.push((0, 0, 1, "BumpString buffer"));
    after(ctx, s, Expect { may_decrease: true, ..Default::default() });
    ctx.ev("session");
    let steps = ctx.rng.range(2, 8);
    let pieces = ["a", "bc", "é", "€uro", "한글", "😀", "0123456789abcdef", "\u{301}x"];
    for _ in 0..steps {
        match ctx.rng.below(5) {
            0 | 1 => {
                let p = pieces[ctx.rng.below(pieces.len())].repeat(ctx.rng.range(1, if ctx.p.small { 4 } else { 30 }));
                ctx.begin(format!("session: try_push_str {} bytes", p.len()));
                match guarded(|| v.try_push_str(&p)) {
                    Ok(Ok(())) => {
                        if ctx.refused() {
                            ctx.viol("C07", "ok_after_refusal:BumpString::try_push_str".into(), String::new());
                        }
                        model.push_str(&p)
                    }
                    Ok(Err(_)) => {}
                    Err(p) => ctx.viol("C07", "try_method_panicked:BumpString::try_push_str".into(), format!("{:?}", classify(&p))),
                }
            }
            2 => {
                ctx.begin("session: shrink_to_fit (string)".into());
                v.shrink_to_fit();
            }
            3 => {
                let l = gen_layout(ctx, S::MIN_ALIGN);
                ctx.begin(format!("session: interleaved allocate size={} align={}", l.size(), l.align()));
                if let Ok(Ok(p)) = guarded(|| s.allocate(l)) {
                    unsafe { reg(ctx, p.cast(), l.size(), l, depth, "allocate", true) };
                }
            }
            _ => {
                let n = ctx.rng.range(0, if ctx.p.small { 40 } else { 400 });
                ctx.begin(format!("session: try_reserve {n} (string)"));
                match guarded(|| v.try_reserve(n)) {
                    Ok(Ok(())) => {
                        if v.capacity() < v.len() + n {
                            ctx.viol("C08", "reserve_promise_not_kept:BumpString".into(), format!("len {} + {n} > cap {}", v.len(), v.capacity()));
                        }
                    }
                    Ok(Err(_)) => {}
                    Err(p) => ctx.viol("C07", "try_method_panicked:BumpString::try_reserve".into(), format!("{:?}", classify(&p))),
                }
            }
        }
        *ctx.extras.last_mut().unwrap() = if v.capacity() == 0 { (0, 0, 1, "BumpString buffer") } else { (v.as_non_null().addr().get(), v.capacity(), 1, "BumpString buffer") };
        if v.as_str() != model.as_str() {
            ctx.viol("C02", "collection_contents_changed:BumpString".into(), format!("after {}", ctx.desc));
            model = v.as_str().to_string();
        }
        after(ctx, s, Expect { may_decrease: true, ..Default::default() });
    }
    ctx.extras.pop();
    if ctx.rng.bool() {
        ctx.begin("session: into_boxed_str".into());
        let b = v.into_boxed_str();
        let n = b.len();
        let p: NonNull<u8> = BumpBox::into_raw(b).cast();
        if n > 0 {
            ctx.sh.add_with_contents(p, Layout::array::<u8>(n).unwrap(), depth, "BumpString::into_boxed_str", model.as_bytes().to_vec());
        }
    } else {
        ctx.begin("session: drop BumpString".into());
        drop(v);
    }
    after(ctx, s, Expect { may_decrease: true, ..Default::default() });
}
