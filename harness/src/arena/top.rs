//! One history: initial arena state, top-level operations on the owning `Bump`, teardown checks.

use super::level::*;
use super::*;
use crate::monalloc::{MonState, set_current};
use bump_scope::Bump;
use std::cell::RefCell;
use std::rc::Rc;

fn bump_after<A, S>(ctx: &mut Ctx, bump: &Bump<A, S>, exp: Expect)
where
    A: MonHandle + BaseAllocator<S::GuaranteedAllocated>,
    S: BumpAllocatorSettings,
{
    // alternate between the Bump's own accessors and its scope view (both must agree; C17 compares them in depth)
    if ctx.rng.bool() {
        let s = snap(bump.stats(), bump.any_stats());
        judge(ctx, s, exp, S::UP, S::MIN_ALIGN);
    } else {
        after(ctx, bump.as_scope(), exp);
    }
}

/// Builds the initial arena.  `None` = construction failed (only legitimate under fault injection).
fn initial<A, S>(ctx: &mut Ctx) -> Option<Bump<A, S>>
where
    A: MonHandle + BaseAllocator<S::GuaranteedAllocated>,
    S: BumpAllocatorSettings,
{
    let kind = ctx.rng.weighted(&[20, 20, 15, 10, 20, 10, 5]);
    let mon = ctx.mon.clone();
    let a = || A::with(&mon);
    let mut built: Option<Bump<A, S>> = None;
    match kind {
        0 => {
            ctx.begin("init: Bump::default()".into());
            let calls0 = ctx.mon.borrow().alloc_calls;
            let r = guarded(|| Bump::<A, S>::default());
            match r {
                Ok(b) => built = Some(b),
                Err(p) => {
                    if classify(&p) != PanicKind::AllocError {
                        unexpected_panic(ctx, p, "Bump::default");
                    }
                }
            }
            if !S::GUARANTEED_ALLOCATED && built.is_some() && ctx.mon.borrow().alloc_calls != calls0 {
                ctx.viol("C05", "unallocated_bump_called_base_allocator".into(), "Bump::default() of a not-guaranteed-allocated arena".into());
            }
        }
        1 => {
            let form = ctx.rng.below(4);
            ctx.begin(format!("init: Bump::{}", ["try_new_in", "new_in", "try_new", "new"][form]));
            built = ctor_form(ctx, form, || Bump::<A, S>::try_new_in(a()), || Bump::<A, S>::new_in(a()), || Bump::<A, S>::try_new(), || Bump::<A, S>::new());
        }
        2 => {
            let size = *ctx.rng.pick(&[0usize, 1, 64, 512, 1000, 4096, 5000]);
            let form = ctx.rng.below(4);
            ctx.begin(format!("init: Bump::{}({size})", ["try_with_size_in", "with_size_in", "try_with_size", "with_size"][form]));
            built = ctor_form(ctx, form, || Bump::<A, S>::try_with_size_in(size, a()), || Bump::<A, S>::with_size_in(size, a()), || Bump::<A, S>::try_with_size(size), || Bump::<A, S>::with_size(size));
            if let Some(b) = &built {
                // the chunk is at least as large as asked for, minus the documented 16 bytes of assumed overhead
                let got = b.stats().size();
                if got + 16 < size {
                    ctx.viol("C12", "with_size_chunk_smaller_than_hint".into(), format!("asked {size} got {got}"));
                }
            }
        }
        3 => {
            let l = gen_layout(ctx, S::MIN_ALIGN);
            let form = ctx.rng.below(4);
            ctx.begin(format!("init: Bump::{}(size={} align={})", ["try_with_capacity_in", "with_capacity_in", "try_with_capacity", "with_capacity"][form], l.size(), l.align()));
            built = ctor_form(ctx, form, || Bump::<A, S>::try_with_capacity_in(l, a()), || Bump::<A, S>::with_capacity_in(l, a()), || Bump::<A, S>::try_with_capacity(l), || Bump::<A, S>::with_capacity(l));
            if let Some(b) = &built {
                // C12: the layout fits without another chunk
                let calls = ctx.mon.borrow().alloc_calls;
                let r = b.try_allocate_layout(l);
                let calls2 = ctx.mon.borrow().alloc_calls;
                if calls2 != calls || r.is_err() {
                    ctx.viol("C12", "with_capacity_chunk_does_not_fit_layout".into(), format!("{l:?}: base calls {} result ok={}", calls2 - calls, r.is_ok()));
                }
                if let Ok(p) = r {
                    if l.size() > 0 {
                        unsafe { reg(ctx, p, l.size(), l, 0, "allocate_layout", false) };
                    }
                }
                ctx.ev("with_capacity_fit");
            }
        }
        4 | 5 => {
            // multi-chunk: a scope grows the arena and is left again; the current chunk is then the first one
            ctx.begin("init: multi-chunk arena (scope that grew and was left)".into());
            if let Ok(mut b) = Bump::<A, S>::try_new_in(a()) {
                let chunks = ctx.rng.range(1, 3);
                let cap = b.stats().capacity().max(64);
                let mut ok = true;
                b.scoped(|s| {
                    for i in 0..chunks {
                        if s.try_allocate_layout(Layout::from_size_align(cap * (1 + i) + 8, 1).unwrap()).is_err() {
                            ok = false;
                        }
                    }
                });
                let _ = ok;
                if kind == 5 {
                    // move the current chunk forward by keeping allocations that do not fit the earlier ones
                    let steps = ctx.rng.range(1, chunks);
                    for _ in 0..steps {
                        let rem = b.stats().current_chunk().map(|c| c.remaining()).unwrap_or(0);
                        if let Ok(p) = b.try_allocate_layout(Layout::from_size_align(rem + 1, 1).unwrap()) {
                            unsafe { reg(ctx, p, rem + 1, Layout::from_size_align(rem + 1, 1).unwrap(), 0, "allocate_layout", false) };
                        }
                    }
                }
                built = Some(b);
            }
        }
        _ => {
            ctx.begin("init: nearly full first chunk".into());
            if let Ok(b) = Bump::<A, S>::try_new_in(a()) {
                let rem = b.stats().remaining();
                let take = rem.saturating_sub(ctx.rng.range(0, 24));
                if let Ok(p) = b.try_allocate_layout(Layout::from_size_align(take, 1).unwrap()) {
                    if take > 0 {
                        unsafe { reg(ctx, p, take, Layout::from_size_align(take, 1).unwrap(), 0, "allocate_layout", false) };
                    }
                }
                built = Some(b);
            }
        }
    }
    if built.is_none() {
        ctx.rep.count("init_failed");
        if !ctx.refused() && ctx.p.fault_prob == 0 && ctx.mon.borrow().fail.fail_calls.is_empty() && ctx.mon.borrow().fail.fail_from.is_none() {
            ctx.viol(leak_prop(&ctx.p.prop.clone()), "constructor_failed_without_refusal".into(), ctx.desc.clone());
        }
    }
    built
}

/// One constructor in its four forms (`try_*_in`, `*_in`, `try_*` and `*` with the `Default` base allocator);
/// a panicking form may only unwind with the allocation-error marker.
fn ctor_form<B>(ctx: &mut Ctx, form: usize, f0: impl FnOnce() -> Result<B, bump_scope::alloc::AllocError>, f1: impl FnOnce() -> B, f2: impl FnOnce() -> Result<B, bump_scope::alloc::AllocError>, f3: impl FnOnce() -> B) -> Option<B> {
    let r = guarded(|| match form {
        0 => f0().ok(),
        1 => Some(f1()),
        2 => f2().ok(),
        _ => Some(f3()),
    });
    match r {
        Ok(b) => b,
        Err(p) => {
            if classify(&p) != PanicKind::AllocError {
                unexpected_panic(ctx, p, "Bump constructor");
            }
            None
        }
    }
}

pub struct Plan {
    pub fail: FailPlan,
}

pub fn run_history<A, S>(rep: &mut Report, p: &Params, hist: u64, seed: u64, fail: FailPlan) -> HistoryResult
where
    A: MonHandle + BaseAllocator<S::GuaranteedAllocated>,
    S: BumpAllocatorSettings,
{
    let mut rng = Rng::new(seed);
    let policy = policy_from_seed(p, &mut rng);
    let mut fail = fail;
    if p.fault_prob > 0 {
        fail.fail_prob = p.fault_prob;
    }
    let cfg = format!("{}/{}/{}", settings_name::<S>(), A::NAME, policy.describe());
    let mon: Shared = Rc::new(RefCell::new(MonState::new(policy, fail, seed)));
    set_current(Some(mon.clone()));
    rep.histories += 1;
    let empty = Snap::empty();
    let mut ctx = Ctx {
        rng,
        mon: mon.clone(),
        sh: Shadow::new(if p.small { 24 } else { 48 }),
        rep,
        p,
        cfg,
        hist,
        op: 0,
        quota: p.ops,
        desc: String::new(),
        view: empty,
        hit: 0,
        hhash: 0,
        catch_depth: 0,
        claim_depth: 0,
        depth_now: 0,
        trace: VecDeque::new(),
        viols_here: 0,
        extras: Vec::new(),
        up: S::UP,
    };
    let r = catch_unwind(AssertUnwindSafe(|| history_body::<A, S>(&mut ctx)));
    if let Err(pl) = r {
        unexpected_panic(&mut ctx, pl, "history");
    }
    // teardown: every grant must have been released exactly once (C05)
    {
        let mut m = mon.borrow_mut();
        m.check_quiescent();
        let leaked: Vec<String> = m.live_grants().map(|g| format!("#{} {:?} (granted in op {})", g.id, g.req, g.op)).collect();
        let probs: Vec<_> = m.problems.drain(..).collect();
        drop(m);
        if !leaked.is_empty() && ctx.viols_here == 0 {
            ctx.viol("C05", "chunk_never_released".into(), format!("{} grant(s) still live after the Bump was dropped: {}", leaked.len(), leaked.join(", ")));
        }
        for (sig, d) in probs {
            ctx.viol("C05", sig, d);
        }
        // offline check of the event log: exactly-once pairing
        let m = mon.borrow();
        let mut state: Vec<u8> = vec![0; m.grants.len()];
        for e in &m.log {
            match e.kind {
                crate::monalloc::EvKind::Alloc => state[e.grant] += 1,
                crate::monalloc::EvKind::Dealloc => state[e.grant] += 10,
                _ => {}
            }
        }
        drop(m);
        if ctx.viols_here == 0 {
            if let Some(i) = state.iter().position(|&s| s != 11) {
                ctx.viol("C05", "event_log_pairing".into(), format!("grant #{i}: alloc/dealloc events {}", state[i]));
            }
        }
    }
    set_current(None);
    let nontrivial = ctx.hit != 0;
    let h = mix(&[hash_str(&ctx.cfg), ctx.hhash]);
    if nontrivial {
        ctx.rep.nontrivial.insert(h);
    }
    if ctx.rep.samples.len() < p.samples && ctx.op > 8 {
        let t: Vec<String> = ctx.trace.iter().take(25).cloned().collect();
        let s = format!("[{} hist {} seed {}] {}", ctx.cfg, hist, seed, t.join(" ; "));
        ctx.rep.samples.push(s);
    }
    let base_calls = mon.borrow().alloc_calls;
    HistoryResult { hash: h, hit: ctx.hit, base_calls, viols: ctx.viols_here, trace: ctx.trace.iter().cloned().collect() }
}

fn history_body<A, S>(ctx: &mut Ctx)
where
    A: MonHandle + BaseAllocator<S::GuaranteedAllocated>,
    S: BumpAllocatorSettings,
{
    let Some(mut bump) = initial::<A, S>(ctx) else { return };
    bump_after(ctx, &bump, Expect { may_decrease: true, ..Default::default() });
    if ctx.view.typed.cur.is_none() && ctx.rng.chance(2, 3) {
        // a claim on an arena that has not allocated anything yet
        super::structure::op_claim(bump.as_mut_scope(), ctx, 0);
    }
    if ctx.view.typed.cur.is_none() && ctx.rng.chance(1, 2) {
        // reserve as the very first request of an arena without a chunk (sizes include unrepresentable ones)
        super::typed::op_reserve(bump.as_mut_scope(), ctx);
    }
    while ctx.quota > 0 && ctx.viols_here <= 6 {
        match ctx.rng.weighted(&ctx.p.wtop) {
            0 => {
                let q = ctx.rng.range(3, 40);
                level(bump.as_mut_scope(), ctx, 0, q);
            }
            1 => {
                ctx.begin("reset".into());
                ctx.sh.clear();
                let before = ctx.view.clone();
                bump.reset();
                bump_after(ctx, &bump, Expect { may_decrease: true, ..Default::default() });
                let v = ctx.view.typed.clone();
                if !before.typed.fwd.is_empty() {
                    let want = before.typed.fwd.last().unwrap().chunk_start;
                    if v.fwd.len() != 1 || v.fwd[0].chunk_start != want {
                        ctx.viol("C05", "reset_did_not_keep_exactly_the_largest_chunk".into(), format!("chunks after reset {:x?}, expected [{want:#x}]", v.fwd.iter().map(|c| c.chunk_start).collect::<Vec<_>>()));
                    }
                    let live = ctx.mon.borrow().live_count;
                    if live != 1 {
                        ctx.viol("C05", "reset_left_wrong_number_of_grants".into(), format!("{live} live grants after reset"));
                    }
                    if v.allocated != 0 {
                        ctx.viol("C03", "reset_did_not_rewind".into(), format!("allocated() {}", v.allocated));
                    }
                }
                ctx.ev("reset");
            }
            2 => {
                ctx.begin("reset_to_start".into());
                ctx.sh.clear();
                let before = ctx.view.clone();
                bump.reset_to_start();
                bump_after(ctx, &bump, Expect { may_decrease: true, no_release: true, ..Default::default() });
                let v = ctx.view.typed.clone();
                if let Some(f) = before.typed.fwd.first() {
                    let start = if S::UP { f.content_start } else { f.content_end };
                    if v.allocated != 0 || v.cur.map(|c| (c.chunk_start, c.pos)) != Some((f.chunk_start, start)) || v.fwd.len() != before.typed.fwd.len() {
                        ctx.viol("C03", "reset_to_start_did_not_rewind_to_first_chunk".into(), format!("allocated {} cur {:x?}", v.allocated, v.cur));
                    }
                }
                ctx.ev("reset_to_start");
            }
            3 => {
                ctx.begin("into_raw / from_raw round trip".into());
                let raw = bump.into_raw();
                bump = unsafe { Bump::from_raw(raw) };
                let before = ctx.view.typed.clone();
                bump_after(ctx, &bump, Expect { no_release: true, ..Default::default() });
                if before != ctx.view.typed {
                    ctx.viol("C05", "raw_round_trip_changed_arena".into(), String::new());
                }
                ctx.ev("raw_roundtrip");
            }
            4 => {
                if ctx.p.fault_prob == 0 {
                    reset_loop(&mut bump, ctx);
                }
            }
            5 => {
                // drop and recreate: the teardown rule must hold at an arbitrary point of the history
                ctx.begin("drop Bump (mid-history) and start over".into());
                let chunks = ctx.view.typed.fwd.len();
                ctx.sh.clear();
                drop(bump);
                let live = ctx.mon.borrow().live_count;
                if live != 0 {
                    let m = ctx.mon.borrow();
                    let l: Vec<String> = m.live_grants().map(|g| format!("#{} {:?}", g.id, g.req)).collect();
                    drop(m);
                    ctx.viol("C05", "chunk_never_released".into(), format!("{live} grant(s) live after drop of an arena with {chunks} chunk(s): {}", l.join(", ")));
                    // forget them so that the next arena starts clean
                    ctx.mon.borrow_mut().grants.iter_mut().for_each(|g| g.live = false);
                    ctx.mon.borrow_mut().live_count = 0;
                }
                if chunks > 1 {
                    ctx.ev("drop_multi_chunk");
                }
                {
                    let mut m = ctx.mon.borrow_mut();
                    m.check_quiescent();
                    let probs: Vec<_> = m.problems.drain(..).collect();
                    drop(m);
                    for (sig, d) in probs {
                        ctx.viol("C05", sig, d);
                    }
                }
                ctx.view = Snap::empty();
                let Some(b) = initial::<A, S>(ctx) else { return };
                bump = b;
                bump_after(ctx, &bump, Expect { may_decrease: true, ..Default::default() });
            }
            _ => {
                bump = match conversions(bump, ctx) {
                    Some(b) => b,
                    None => return,
                };
            }
        }
    }
    ctx.begin("drop Bump".into());
    if ctx.view.typed.fwd.len() > 1 {
        ctx.ev("drop_multi_chunk");
    }
    ctx.sh.clear();
    drop(bump);
}

/// C03: a fixed workload in a `reset()` loop stops requesting chunks after finitely many rounds.
fn reset_loop<A, S>(bump: &mut Bump<A, S>, ctx: &mut Ctx)
where
    A: MonHandle + BaseAllocator<S::GuaranteedAllocated>,
    S: BumpAllocatorSettings,
{
    let n = ctx.rng.range(2, 12);
    let w: Vec<Layout> = (0..n).map(|_| Layout::from_size_align(ctx.rng.range(1, if ctx.p.small { 300 } else { 3000 }), 1 << ctx.rng.below(5)).unwrap()).collect();
    // worst-case demand of one round
    let demand: usize = w.iter().map(|l| l.size() + l.align() - 1 + S::MIN_ALIGN - 1).sum();
    ctx.sh.clear();
    let mut quiet_needed = false;
    for round in 0..40 {
        ctx.begin(format!("reset-loop round {round}: {} allocations, demand <= {demand}", w.len()));
        bump.reset();
        let retained = bump.stats().capacity();
        let retained_size = bump.stats().size();
        let before = ctx.mon.borrow().alloc_calls;
        for l in &w {
            if bump.try_allocate_layout(*l).is_err() {
                bump_after(ctx, bump, Expect { may_decrease: true, ..Default::default() });
                return;
            }
        }
        let calls = ctx.mon.borrow().alloc_calls - before;
        bump_after(ctx, bump, Expect { may_decrease: true, ..Default::default() });
        if retained >= demand && calls > 0 {
            ctx.viol("C03", "reset_loop_still_requests_chunks".into(), format!("round {round}: retained capacity {retained} >= demand {demand} but {calls} base calls"));
            return;
        }
        if calls > 0 {
            quiet_needed = true;
            let biggest = ctx.view.typed.fwd.last().map(|c| c.size).unwrap_or(0);
            if biggest <= retained_size && bump.stats().count() > 0 {
                ctx.viol("C03", "reset_loop_round_did_not_grow_largest_chunk".into(), format!("round {round}: retained {retained_size}, largest now {biggest}"));
                return;
            }
        } else if quiet_needed || round >= 1 {
            // one quiet round is the fixed point: every later round is identical
            ctx.ev("reset_loop");
            return;
        }
    }
    ctx.viol("C03", "reset_loop_did_not_converge".into(), format!("40 rounds of a workload with demand {demand}"));
}

/// C18 (second half): conversions that need an allocated / unclaimed arena panic exactly then.
fn conversions<A, S>(bump: Bump<A, S>, ctx: &mut Ctx) -> Option<Bump<A, S>>
where
    A: MonHandle + BaseAllocator<S::GuaranteedAllocated>,
    S: BumpAllocatorSettings,
{
    let unallocated = bump.stats().current_chunk().is_none();
    match ctx.rng.below(4) {
        0 => {
            // raise the minimum alignment by value and come back
            ctx.begin(format!("with_settings<MIN_ALIGN=16> and back (outer {})", S::MIN_ALIGN));
            let b16 = bump.with_settings::<S::WithMinimumAlignment<16>>();
            {
                let s = snap(b16.stats(), b16.any_stats());
                judge(ctx, s, Expect::default(), S::UP, 16);
            }
            let b = b16.with_settings::<S>();
            bump_after(ctx, &b, Expect::default());
            ctx.ev("conversion_probe");
            Some(b)
        }
        1 => {
            ctx.begin(format!("with_settings<GUARANTEED_ALLOCATED=true> on {} arena", if unallocated { "an unallocated" } else { "an allocated" }));
            // on panic the arena is dropped by the unwinding
            ctx.sh.clear();
            let r = guarded(|| bump.with_settings::<S::WithGuaranteedAllocated<true>>());
            ctx.ev("conversion_probe");
            match r {
                Ok(g) => {
                    if unallocated {
                        ctx.viol("C18", "conversion_to_guaranteed_allocated_accepted_unallocated_arena".into(), String::new());
                    }
                    let b = g.with_settings::<S>();
                    bump_after(ctx, &b, Expect { may_decrease: true, ..Default::default() });
                    Some(b)
                }
                Err(p) => {
                    match classify(&p) {
                        PanicKind::Msg(m) if m.contains("unallocated") && unallocated => {}
                        k => ctx.viol("C18", "conversion_to_guaranteed_allocated_panicked_wrongly".into(), format!("unallocated={unallocated} panic={k:?}")),
                    }
                    ctx.view = Snap::empty();
                    let b = initial::<A, S>(ctx)?;
                    bump_after(ctx, &b, Expect { may_decrease: true, ..Default::default() });
                    Some(b)
                }
            }
        }
        2 => {
            // CLAIMABLE = false requires an unclaimed arena
            // (the claimed case leaks the arena by design, which Miri's leak check would report)
            let claimed = !cfg!(miri) && ctx.rng.chance(1, 3);
            ctx.begin(format!("with_settings<CLAIMABLE=false> on {} arena", if claimed { "a claimed (leaked guard)" } else { "an unclaimed" }));
            ctx.sh.clear();
            if claimed {
                std::mem::forget(bump.claim());
            }
            let r = guarded(|| bump.with_settings::<S::WithClaimable<false>>());
            ctx.ev("conversion_probe");
            match r {
                Ok(g) => {
                    if claimed {
                        ctx.viol("C18", "conversion_to_unclaimable_accepted_claimed_arena".into(), String::new());
                    }
                    let b = g.with_settings::<S>();
                    bump_after(ctx, &b, Expect { may_decrease: true, ..Default::default() });
                    Some(b)
                }
                Err(p) => {
                    match classify(&p) {
                        PanicKind::Msg(m) if m.contains("claimed") && claimed => {}
                        k => ctx.viol("C18", "conversion_to_unclaimable_panicked_wrongly".into(), format!("claimed={claimed} panic={k:?}")),
                    }
                    // the claimed arena was dropped by the unwinding: a leaked claim guard leaks the arena (documented)
                    {
                        let mut m = ctx.mon.borrow_mut();
                        m.grants.iter_mut().for_each(|g| g.live = false);
                        m.live_count = 0;
                        m.live_bytes = 0;
                        // nobody will touch that memory again: give it back to the system, and keep
                        // the event-log pairing check quiet for these grants
                        m.teardown();
                        m.log.clear();
                        m.grants.clear();
                    }
                    ctx.view = Snap::empty();
                    let b = initial::<A, S>(ctx)?;
                    bump_after(ctx, &b, Expect { may_decrease: true, ..Default::default() });
                    Some(b)
                }
            }
        }
        _ => {
            // borrow conversions that the compile-time checks always allow
            ctx.begin("borrow_with_settings<same> / borrow_mut_with_settings<MIN_ALIGN=16>".into());
            let mut bump = bump;
            {
                let same = bump.borrow_with_settings::<S>();
                let s = snap(same.stats(), same.any_stats());
                judge(ctx, s, Expect::default(), S::UP, S::MIN_ALIGN);
            }
            {
                let m16 = bump.borrow_mut_with_settings::<S::WithMinimumAlignment<16>>();
                let s = snap(m16.stats(), m16.any_stats());
                judge(ctx, s, Expect::default(), S::UP, 16);
            }
            bump_after(ctx, &bump, Expect::default());
            ctx.ev("conversion_probe");
            Some(bump)
        }
    }
}
