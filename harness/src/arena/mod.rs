//! The arena interpreter: generated, state-dependent operation histories over a real `Bump`, with
//! every oracle of DESIGN.md section 1 evaluated after every operation.

use bump_scope::alloc::{AllocError, Allocator};
use bump_scope::settings::BumpAllocatorSettings;
use bump_scope::traits::*;
use bump_scope::{BaseAllocator, BumpScope};
use std::alloc::Layout;
use std::any::Any;
use std::collections::VecDeque;
use std::panic::{AssertUnwindSafe, catch_unwind, resume_unwind};

use crate::monalloc::{FailPlan, MonHandle, Overgrant, Place, Policy, Shared};
use crate::out::{Report, Viol};
use crate::rng::{Rng, hash_str, mix};
use crate::shadow::{Finding, Shadow};
use crate::snap::{Snap, WalkCfg, snap, walk};

pub mod level;
pub mod prepared;
pub mod session;
pub mod structure;
pub mod typed;
pub mod top;

/// Marker payload of an injected scope exit by unwinding.
pub struct InjectedExit;
/// Marker payload produced by the alloc-error hook (a panicking API hit an allocation failure).
pub struct AllocErrorMarker;

pub fn install_hooks() {
    std::alloc::set_alloc_error_hook(|_layout| std::panic::panic_any(AllocErrorMarker));
    let quiet = std::env::args().all(|a| a != "--loud");
    std::panic::set_hook(Box::new(move |info| {
        let p = info.payload();
        if p.is::<InjectedExit>() || p.is::<AllocErrorMarker>() || p.is::<crate::tr::FuelPanic>() {
            return;
        }
        if quiet {
            // expected library panics (claimed, capacity overflow, ...) are classified by the caller;
            // printing each of them would drown the log
            return;
        }
        eprintln!("panic: {info}");
    }));
}

#[derive(Debug, Clone, PartialEq, Eq)]
pub enum PanicKind {
    Injected,
    AllocError,
    Fuel,
    Msg(String),
}

pub fn classify(p: &Box<dyn Any + Send>) -> PanicKind {
    if p.is::<InjectedExit>() {
        PanicKind::Injected
    } else if p.is::<AllocErrorMarker>() {
        PanicKind::AllocError
    } else if p.is::<crate::tr::FuelPanic>() {
        PanicKind::Fuel
    } else if let Some(s) = p.downcast_ref::<&'static str>() {
        PanicKind::Msg((*s).to_string())
    } else if let Some(s) = p.downcast_ref::<String>() {
        PanicKind::Msg(s.clone())
    } else {
        PanicKind::Msg("<non-string payload>".into())
    }
}

/// Strips numbers so that a panic message becomes a stable signature.
pub fn msg_sig(m: &str) -> String {
    let mut o = String::new();
    let mut in_num = false;
    for c in m.chars().take(120) {
        if c.is_ascii_digit() {
            if !in_num {
                o.push('#');
            }
            in_num = true;
        } else {
            in_num = false;
            o.push(if c == '\n' { ' ' } else { c });
        }
    }
    o
}

pub fn guarded<R>(f: impl FnOnce() -> R) -> Result<R, Box<dyn Any + Send>> {
    catch_unwind(AssertUnwindSafe(f))
}

// ------------------------------------------------------------------------------------------------

pub const N_OPS: usize = 24;
pub mod opid {
    pub const ALLOC: usize = 0;
    pub const GROW: usize = 1;
    pub const SHRINK: usize = 2;
    pub const DEALLOC: usize = 3;
    pub const RECLAIM_PROBE: usize = 4;
    pub const TYPED: usize = 5;
    pub const TRY_WITH: usize = 6;
    pub const TYPED_LAYOUT: usize = 7;
    pub const BOX_DEALLOC: usize = 8;
    pub const RESERVE: usize = 9;
    pub const MUT_HELPERS: usize = 10;
    pub const PREPARED: usize = 11;
    pub const PREPARED_SLICE: usize = 12;
    pub const SESSION: usize = 13;
    pub const SCOPED: usize = 14;
    pub const SCOPED_ALIGNED: usize = 15;
    pub const GUARD: usize = 16;
    pub const ALIGNED: usize = 17;
    pub const CHECKPOINT: usize = 18;
    pub const RESET_TO: usize = 19;
    pub const CLAIM: usize = 20;
    pub const BY_VALUE: usize = 21;
    pub const REPLAY: usize = 22;
    pub const BORROW_SETTINGS: usize = 23;
}

#[derive(Clone, Debug)]
pub struct Params {
    pub prop: String,
    pub ops: usize,
    pub max_depth: u32,
    pub thick: bool,
    pub frame: bool,
    pub small: bool,
    pub fault_prob: u32,
    pub w: [u32; N_OPS],
    /// top-level op weights: level, reset, reset_to_start, raw round trip, reset loop, recreate, conversions
    pub wtop: [u32; 7],
    pub samples: usize,
}

impl Params {
    pub fn for_prop(prop: &str) -> Params {
        use opid::*;
        let mut w = [0u32; N_OPS];
        // general mix
        w[ALLOC] = 30;
        w[GROW] = 10;
        w[SHRINK] = 8;
        w[DEALLOC] = 8;
        w[RECLAIM_PROBE] = 3;
        w[TYPED] = 12;
        w[TRY_WITH] = 3;
        w[TYPED_LAYOUT] = 4;
        w[BOX_DEALLOC] = 2;
        w[RESERVE] = 2;
        w[MUT_HELPERS] = 3;
        w[PREPARED] = 4;
        w[PREPARED_SLICE] = 3;
        w[SESSION] = 4;
        w[SCOPED] = 5;
        w[SCOPED_ALIGNED] = 2;
        w[GUARD] = 2;
        w[ALIGNED] = 2;
        w[CHECKPOINT] = 3;
        w[RESET_TO] = 3;
        w[CLAIM] = 2;
        w[BY_VALUE] = 1;
        w[REPLAY] = 1;
        w[BORROW_SETTINGS] = 1;
        let mut wtop = [70, 6, 6, 3, 2, 3, 2];
        match prop {
            "C02" => {
                w[GROW] = 25;
                w[SHRINK] = 22;
                w[ALLOC] = 25;
                w[DEALLOC] = 6;
            }
            "C03" => {
                w[SCOPED] = 14;
                w[SCOPED_ALIGNED] = 5;
                w[GUARD] = 6;
                w[CHECKPOINT] = 6;
                w[RESET_TO] = 6;
                w[TRY_WITH] = 8;
                w[MUT_HELPERS] = 5;
                w[REPLAY] = 6;
                w[CLAIM] = 3;
                wtop = [60, 8, 8, 2, 8, 2, 1];
            }
            "C05" => {
                wtop = [55, 12, 8, 8, 4, 8, 3];
                w[SCOPED] = 8;
                w[RESERVE] = 4;
            }
            "C10" => {
                w[PREPARED_SLICE] = 6;
                w[SESSION] = 6;
                w[ALIGNED] = 4;
            }
            "C12" => {
                w[ALLOC] = 40;
                w[RESERVE] = 8;
                w[TYPED] = 10;
                wtop = [60, 6, 4, 2, 2, 20, 1];
            }
            "C13" => {
                w[DEALLOC] = 20;
                w[RECLAIM_PROBE] = 12;
                w[SHRINK] = 16;
                w[GROW] = 14;
                w[BOX_DEALLOC] = 5;
                w[SESSION] = 6;
            }
            "C14" => {
                w[CLAIM] = 14;
                w[SCOPED] = 6;
            }
            "C18" => {
                w[ALIGNED] = 12;
                w[SCOPED_ALIGNED] = 10;
                w[BORROW_SETTINGS] = 4;
                w[SCOPED] = 5;
                wtop = [70, 4, 4, 2, 1, 3, 10];
            }
            "C15" => {
                w[MUT_HELPERS] = 20;
                w[PREPARED_SLICE] = 20;
                w[PREPARED] = 10;
                w[SCOPED] = 6;
            }
            "C07" => {
                w[RESERVE] = 5;
                w[SESSION] = 6;
                w[MUT_HELPERS] = 6;
                w[TYPED] = 16;
                w[TYPED_LAYOUT] = 6;
                w[PREPARED] = 5;
                w[PREPARED_SLICE] = 5;
            }
            _ => {}
        }
        Params { prop: prop.to_string(), ops: 150, max_depth: 6, thick: true, frame: !cfg!(miri), small: cfg!(miri), fault_prob: 0, w, wtop, samples: 2 }
    }
}

/// What the statement allows `allocated()` to do during the operation that just ran.
#[derive(Clone, Copy, Debug, Default)]
pub struct Expect {
    pub may_decrease: bool,
    /// the handle is claimed / never allocated: all numbers are zero
    pub empty: bool,
    /// a single user allocation: at most one base-allocator `allocate` call (C12)
    pub single_alloc: bool,
    /// op must not call the base allocator's deallocate (C05: scope exits, reset_to_start)
    pub no_release: bool,
}

pub struct Ctx<'r> {
    pub rng: Rng,
    pub mon: Shared,
    pub sh: Shadow,
    pub rep: &'r mut Report,
    pub p: &'r Params,
    pub cfg: String,
    pub hist: u64,
    pub op: u64,
    pub quota: usize,
    pub desc: String,
    pub view: Snap,
    pub hit: u64,
    pub hhash: u64,
    pub catch_depth: u32,
    pub claim_depth: u32,
    pub depth_now: u32,
    pub trace: VecDeque<String>,
    pub viols_here: u32,
    /// additional live regions owned by a collection during a session: (addr, len, align, tag)
    pub extras: Vec<(usize, usize, usize, &'static str)>,
    pub up: bool,
}

pub const EVENT_CLASSES: &[&str] = &[
    "fast",
    "slow_reuse",
    "slow_new",
    "first_chunk_from_unallocated",
    "grow_inplace",
    "grow_moved_same_chunk",
    "grow_moved_other_chunk",
    "shrink_inplace",
    "shrink_noop",
    "shrink_moved",
    "dealloc_reclaim",
    "dealloc_noop",
    "zeroed_on_dirty",
    "scope_exit_same_chunk",
    "scope_exit_across_chunks",
    "scope_exit_unwind",
    "reset_to",
    "reset_to_unallocated_checkpoint",
    "claim_enter",
    "claim_op_rejected",
    "claim_exit_unwind",
    "align_raise",
    "align_lower",
    "prepared_commit",
    "prepared_commit_after_chunk_switch",
    "base_refused",
    "overgrant_used",
    "reset",
    "reset_to_start",
    "replay_scope",
    "reset_loop",
    "try_with_err_rewind",
    "session",
    "reclaim_probe_same_address",
    "grow_inplace_probe",
    "raw_roundtrip",
    "drop_multi_chunk",
    "conversion_probe",
    "mut_helper",
    "with_capacity_fit",
    "reserve_new_chunk",
];

impl<'r> Ctx<'r> {
    pub fn ev(&mut self, class: &str) {
        self.rep.count(class);
        if let Some(i) = EVENT_CLASSES.iter().position(|c| *c == class) {
            self.hit |= 1 << i;
        } else {
            debug_assert!(false, "unknown event class {class}");
        }
    }

    pub fn begin(&mut self, desc: String) {
        self.op += 1;
        self.rep.ops += 1;
        if self.quota > 0 {
            self.quota -= 1;
        }
        self.mon.borrow_mut().begin_op(self.op);
        self.hhash = mix(&[self.hhash, hash_str(&desc)]);
        if self.rep.wal {
            eprintln!("op {} [{}#{}] {}", self.op, self.cfg, self.hist, desc);
        }
        if self.trace.len() >= 40 {
            self.trace.pop_front();
        }
        self.trace.push_back(desc.clone());
        self.desc = desc;
    }

    pub fn viol(&mut self, prop: &'static str, sig: String, detail: String) {
        self.viols_here += 1;
        let v = Viol { prop, sig, detail, config: self.cfg.clone(), hist: self.hist, op: self.op, opdesc: self.desc.clone() };
        self.rep.viol(v);
    }

    pub fn refused(&self) -> bool {
        self.mon.borrow().refused_in_op > 0
    }

    pub fn allocs_in_op(&self) -> u32 {
        self.mon.borrow().allocs_in_op
    }

    /// Index of the chunk (in the forward list of the current view) containing `addr..addr+len`.
    pub fn chunk_of(&self, addr: usize, len: usize) -> Option<usize> {
        self.view.typed.fwd.iter().position(|c| addr >= c.content_start && addr + len <= c.content_end)
    }

    pub fn cur_index(&self) -> Option<usize> {
        let cur = self.view.typed.cur?;
        self.view.typed.fwd.iter().position(|c| c.chunk_start == cur.chunk_start)
    }

    /// Is there a live block "beyond" block `idx` (between it and the bump position, in its own
    /// chunk or in a later chunk up to the current one)?  Such a block is *interior*.
    pub fn is_interior(&self, idx: usize) -> bool {
        let b = &self.sh.blocks[idx];
        let Some(ci) = self.chunk_of(b.addr(), b.len) else { return true };
        let cur = self.cur_index().unwrap_or(usize::MAX);
        let up = self.up;
        let (baddr, bend) = (b.addr(), b.end());
        let view = &self.view;
        let in_chunk = |a: usize, e: usize, i: usize| {
            let c = &view.typed.fwd[i];
            a >= c.content_start && e <= c.content_end
        };
        for (j, o) in self.sh.blocks.iter().enumerate() {
            if j == idx || o.len == 0 {
                continue;
            }
            if in_chunk(o.addr(), o.end(), ci) {
                if (up && o.addr() >= bend) || (!up && o.end() <= baddr) {
                    return true;
                }
            } else if cur != usize::MAX && ci < cur {
                for k in ci + 1..=cur {
                    if in_chunk(o.addr(), o.end(), k) {
                        return true;
                    }
                }
            }
        }
        for &(a, l, _, _) in &self.extras {
            if l > 0 && in_chunk(a, a + l, ci) && ((up && a >= bend) || (!up && a + l <= baddr)) {
                return true;
            }
        }
        false
    }
}

/// The post-operation oracle.  Returns the new view (also stored in `ctx.view`).
pub fn after<A, S>(ctx: &mut Ctx, scope: &BumpScope<'_, A, S>, exp: Expect)
where
    A: MonHandle + BaseAllocator<S::GuaranteedAllocated>,
    S: BumpAllocatorSettings,
{
    let s = snap(scope.stats(), scope.any_stats());
    judge(ctx, s, exp, S::UP, S::MIN_ALIGN);
}

pub fn judge(ctx: &mut Ctx, s: Snap, exp: Expect, up: bool, min_align: usize) {
    // C10: walker
    {
        let mon = ctx.mon.clone();
        let m = mon.borrow();
        let probs = walk(&s, &WalkCfg { up, min_align, expect_empty: exp.empty }, Some(&m));
        drop(m);
        for (sig, d) in probs {
            let prop = if sig == "later_chunk_smaller_than_twice_previous" { "C12" } else { "C10" };
            ctx.viol(prop, sig, d);
        }
        if s.typed.fwd.len() > 1 {
            ctx.rep.count("chunk_growth_walked");
        }
    }
    if !exp.empty {
        // C01 / C02: shadow ledger
        let mut f: Vec<Finding> = Vec::new();
        ctx.sh.check(&s.typed, &mut f);
        for &(a, l, al, tag) in &ctx.extras {
            if l == 0 {
                continue;
            }
            if a % al != 0 {
                f.push(("C01", format!("misaligned_block:{tag}"), format!("collection buffer {a:#x} align {al}")));
            }
            if !s.typed.fwd.iter().any(|c| a >= c.content_start && a + l <= c.content_end) {
                f.push(("C01", format!("block_outside_owned_memory:{tag}"), format!("collection buffer {a:#x}..{:#x}", a + l)));
            }
            if let Some(b) = ctx.sh.blocks.iter().find(|b| b.len > 0 && b.addr() < a + l && a < b.end()) {
                f.push(("C01", format!("live_blocks_overlap:{tag}+{}", b.via), format!("collection buffer {a:#x}..{:#x} overlaps block #{}", a + l, b.id)));
            }
        }
        if !f.is_empty() {
            ctx.sh.resync();
        }
        for (p, sig, d) in f {
            ctx.viol(p, sig, d);
        }
        // C13: allocated() only decreases where the statement allows it
        if !exp.may_decrease && s.typed.allocated < ctx.view.typed.allocated {
            let class = ctx.desc.split_whitespace().next().unwrap_or("?").to_string();
            ctx.viol("C13", format!("allocated_decreased:{class}"), format!("allocated() {} -> {}", ctx.view.typed.allocated, s.typed.allocated));
        }
    }
    // C05: ledger problems found by MonAlloc (bad release, guard zones, poison)
    {
        let mon = ctx.mon.clone();
        let mut m = mon.borrow_mut();
        m.check_quiescent();
        let probs: Vec<_> = m.problems.drain(..).collect();
        let (allocs, refused, deallocs) = (m.allocs_in_op, m.refused_in_op, m.deallocs_in_op);
        drop(m);
        for (sig, d) in probs {
            ctx.viol("C05", sig, d);
        }
        if exp.single_alloc && allocs + refused > 1 {
            ctx.viol("C12", "more_than_one_base_call_for_one_allocation".into(), format!("{} base allocate calls ({} refused) during one user allocation", allocs + refused, refused));
        }
        if exp.no_release && deallocs > 0 {
            let class = ctx.desc.split_whitespace().next().unwrap_or("?").to_string();
            ctx.viol("C05", format!("chunk_released_by:{class}"), format!("{deallocs} base deallocate calls"));
        }
        if refused > 0 {
            ctx.ev("base_refused");
        }
    }
    // distinct abstract states
    let cur = s.typed.cur.and_then(|c| s.typed.fwd.iter().position(|x| x.chunk_start == c.chunk_start)).unwrap_or(99);
    let st = mix(&[hash_str(&ctx.cfg), s.typed.fwd.len() as u64, cur as u64, ctx.depth_now as u64, ctx.claim_depth as u64, (ctx.sh.blocks.len() / 4) as u64, exp.empty as u64]);
    ctx.rep.states.insert(st);
    if !exp.empty {
        ctx.view = s;
    }
}

/// Settings description used in config names.
pub fn settings_name<S: BumpAllocatorSettings>() -> String {
    format!(
        "{}{}{}{}{}c{}",
        if S::UP { "U" } else { "D" },
        S::MIN_ALIGN,
        if S::GUARANTEED_ALLOCATED { "G" } else { "g" },
        if S::DEALLOCATES { "D" } else { "d" },
        if S::SHRINKS { "S" } else { "s" },
        S::MINIMUM_CHUNK_SIZE
    )
}

pub fn policy_from_seed(p: &Params, rng: &mut Rng) -> Policy {
    let mut pol = if p.thick { Policy::thick() } else { Policy::thin() };
    if p.thick {
        pol.overgrant = *rng.pick(&[Overgrant::Exact, Overgrant::Exact, Overgrant::Small, Overgrant::Medium, Overgrant::Random]);
        pol.place = *rng.pick(&[Place::Natural, Place::Minimal, Place::Minimal, Place::Residue(0x340)]);
    }
    pol
}

pub struct HistoryResult {
    pub hash: u64,
    pub hit: u64,
    pub base_calls: u64,
    pub viols: u32,
    pub trace: Vec<String>,
}

pub fn unexpected_panic(ctx: &mut Ctx, p: Box<dyn Any + Send>, whence: &str) {
    let k = classify(&p);
    let prop: &'static str = leak_prop(&ctx.p.prop);
    match k {
        PanicKind::Msg(m) => ctx.viol(prop, format!("unexpected_panic:{}", msg_sig(&m)), format!("{whence}: {m}")),
        other => ctx.viol(prop, format!("unexpected_panic:{other:?}"), format!("{whence}: escaped marker panic {other:?}")),
    }
}

pub fn leak_prop(p: &str) -> &'static str {
    for c in ["C01", "C02", "C03", "C05", "C06", "C07", "C08", "C09", "C10", "C11", "C12", "C13", "C14", "C15", "C16", "C17", "C18", "C19"] {
        if c == p {
            return c;
        }
    }
    "C00"
}

pub fn alloc_err() -> AllocError {
    AllocError
}

pub fn _unused(_: &dyn Allocator, _: Layout, _: FailPlan) {}
pub fn _resume(p: Box<dyn Any + Send>) -> ! {
    resume_unwind(p)
}
