//! Structural operations: alignment regions, claims, by_value, settings borrows, replay scopes.

use super::level::*;
use super::*;
use bump_scope::settings::{MinimumAlignment, SupportedMinimumAlignment};

macro_rules! dispatch_align {
    ($n:expr, $f:ident, $($arg:expr),*) => {
        match $n {
            1 => $f::<A, S, 1>($($arg),*),
            2 => $f::<A, S, 2>($($arg),*),
            4 => $f::<A, S, 4>($($arg),*),
            8 => $f::<A, S, 8>($($arg),*),
            _ => $f::<A, S, 16>($($arg),*),
        }
    };
}

fn scoped_aligned_n<'a, A, S, const N: usize>(scope: &mut BumpScope<'a, A, S>, ctx: &mut Ctx, depth: u32)
where
    A: MonHandle + BaseAllocator<S::GuaranteedAllocated>,
    S: BumpAllocatorSettings,
    MinimumAlignment<N>: SupportedMinimumAlignment,
{
    ctx.begin(format!("scoped_aligned<{N}>: enter (outer {})", S::MIN_ALIGN));
    let entry = tuple_of(&ctx.view);
    let q = ctx.rng.range(2, 20);
    let unwound = region(ctx, |ctx| {
        scope.scoped_aligned::<N, _>(|inner| {
            ctx.begin(format!("scoped_aligned<{N}>: entered"));
            after(ctx, inner, Expect { may_decrease: true, ..Default::default() });
            level(inner, ctx, depth + 1, q)
        })
    });
    ctx.sh.kill_deeper_than(depth);
    ctx.begin(format!("scoped_aligned<{N}>: exit{}", if unwound { " (unwinding)" } else { "" }));
    let inner_chunk = ctx.view.typed.cur.map(|c| c.chunk_start);
    after(ctx, scope, Expect { may_decrease: true, no_release: true, ..Default::default() });
    // C03 and C18: exactly the entry position
    check_restored(ctx, entry, if unwound { "scoped_aligned_unwind" } else { "scoped_aligned" }, S::UP);
    {
        let now = tuple_of(&ctx.view);
        if entry.chunk.is_some() && (now.pos != entry.pos || now.chunk != entry.chunk) {
            ctx.viol("C18", "scoped_aligned_did_not_restore_entry_position".into(), format!("entry {:#x} exit {:#x}", entry.pos, now.pos));
        }
    }
    ctx.ev(if inner_chunk != ctx.view.typed.cur.map(|c| c.chunk_start) { "scope_exit_across_chunks" } else { "scope_exit_same_chunk" });
    ctx.ev(if N > S::MIN_ALIGN { "align_raise" } else { "align_lower" });
    if unwound {
        ctx.ev("scope_exit_unwind");
    }
}

pub fn op_scoped_aligned<'a, A, S>(scope: &mut BumpScope<'a, A, S>, ctx: &mut Ctx, depth: u32)
where
    A: MonHandle + BaseAllocator<S::GuaranteedAllocated>,
    S: BumpAllocatorSettings,
{
    let n = 1usize << ctx.rng.below(5);
    dispatch_align!(n, scoped_aligned_n, scope, ctx, depth)
}

fn aligned_n<'a, A, S, const N: usize>(scope: &mut BumpScope<'a, A, S>, ctx: &mut Ctx, depth: u32)
where
    A: MonHandle + BaseAllocator<S::GuaranteedAllocated>,
    S: BumpAllocatorSettings,
    MinimumAlignment<N>: SupportedMinimumAlignment,
{
    ctx.begin(format!("aligned<{N}>: enter (outer {})", S::MIN_ALIGN));
    let q = ctx.rng.range(2, 16);
    // allocations made inside `aligned` live as long as the outer scope: same depth
    let unwound = region(ctx, |ctx| {
        scope.aligned::<N, _>(|inner| {
            ctx.begin(format!("aligned<{N}>: entered"));
            // the walker checks position % N == 0 because the inner settings have MIN_ALIGN = N
            after(ctx, inner, Expect::default());
            level(inner, ctx, depth, q)
        })
    });
    ctx.begin(format!("aligned<{N}>: exit{} (outer {})", if unwound { " (unwinding)" } else { "" }, S::MIN_ALIGN));
    // the walker now checks position % outer MIN_ALIGN == 0
    after(ctx, scope, Expect::default());
    ctx.ev(if N > S::MIN_ALIGN { "align_raise" } else { "align_lower" });
}

pub fn op_aligned<'a, A, S>(scope: &mut BumpScope<'a, A, S>, ctx: &mut Ctx, depth: u32)
where
    A: MonHandle + BaseAllocator<S::GuaranteedAllocated>,
    S: BumpAllocatorSettings,
{
    let n = 1usize << ctx.rng.below(5);
    dispatch_align!(n, aligned_n, scope, ctx, depth)
}

pub fn op_borrow_settings<'a, A, S>(scope: &mut BumpScope<'a, A, S>, ctx: &mut Ctx, depth: u32)
where
    A: MonHandle + BaseAllocator<S::GuaranteedAllocated>,
    S: BumpAllocatorSettings,
{
    // raising to 16 is always permitted by the compile-time checks
    ctx.begin(format!("borrow_mut_with_settings<MIN_ALIGN=16> (outer {})", S::MIN_ALIGN));
    let q = ctx.rng.range(1, 8);
    let inner = scope.borrow_mut_with_settings::<S::WithMinimumAlignment<16>>();
    after(ctx, inner, Expect::default());
    level(inner, ctx, depth, q);
    ctx.begin("borrow_mut_with_settings: end of borrow".into());
    after(ctx, scope, Expect::default());
    ctx.ev("align_raise");
}

pub fn op_by_value<'a, A, S>(scope: &mut BumpScope<'a, A, S>, ctx: &mut Ctx, depth: u32)
where
    A: MonHandle + BaseAllocator<S::GuaranteedAllocated>,
    S: BumpAllocatorSettings,
{
    let t = ctx.rng.bool();
    ctx.begin(format!("{}by_value", if t { "try_" } else { "" }));
    let had = ctx.view.typed.cur.is_some();
    let r = guarded(|| if t { scope.try_by_value().map(|_| ()) } else { Ok(drop(scope.by_value())) });
    let refused = ctx.refused();
    match r {
        Ok(Ok(())) => {
            if refused {
                ctx.viol("C07", "ok_after_refusal:by_value".into(), String::new());
            }
        }
        other => {
            let o = other.map(|x| x.map(|_| unreachable!()));
            super::typed::finish_typed(ctx, o, t, "by_value", depth);
        }
    }
    after(ctx, scope, Expect { single_alloc: true, ..Default::default() });
    if !had && ctx.view.typed.cur.is_some() {
        ctx.ev("first_chunk_from_unallocated");
    }
    // use it for a few operations: it is an unguarded alias of the same arena
    if ctx.view.typed.cur.is_some() && ctx.rng.bool() {
        let q = ctx.rng.range(1, 6);
        // allocations made through the by-value scope only live as long as the borrow it came from
        // (it has its own copy of the current-chunk pointer, so the view must be re-read afterwards)
        let unwound = region(ctx, |ctx| {
            if let Ok(mut bv) = scope.try_by_value() {
                if ctx.rng.chance(1, 3) {
                    // the owned scope converted to a higher minimum alignment (BumpScope::with_settings)
                    ctx.begin(format!("by_value().with_settings<MIN_ALIGN=16> (outer {})", S::MIN_ALIGN));
                    let mut bv16 = bv.with_settings::<S::WithMinimumAlignment<16>>();
                    after(ctx, &bv16, Expect::default());
                    ctx.ev("align_raise");
                    ctx.rep.count("scope_with_settings");
                    level(&mut bv16, ctx, depth + 1, q);
                } else {
                    level(&mut bv, ctx, depth + 1, q);
                }
            }
        });
        ctx.sh.kill_deeper_than(depth);
        ctx.begin(format!("by_value: dropped{}", if unwound { " (unwinding)" } else { "" }));
        after(ctx, scope, Expect { may_decrease: true, ..Default::default() });
    }
}

/// C14: claim the scope, probe the original while claimed, work through the guard.
pub fn op_claim<'a, A, S>(scope: &mut BumpScope<'a, A, S>, ctx: &mut Ctx, depth: u32)
where
    A: MonHandle + BaseAllocator<S::GuaranteedAllocated>,
    S: BumpAllocatorSettings,
{
    ctx.begin("claim: enter".into());
    let orig: &BumpScope<'a, A, S> = &*scope;
    if orig.is_claimed() {
        ctx.viol("C14", "unclaimed_handle_reports_claimed".into(), String::new());
    }
    ctx.claim_depth += 1;
    // 0 rounds: the guard is dropped (or unwound) without ever allocating through it
    let rounds = ctx.rng.range(0, 3);
    let nested_unused = ctx.rng.chance(1, 3);
    let unwound = region(ctx, |ctx| {
        let mut g = orig.claim();
        ctx.ev("claim_enter");
        // the guard continues exactly where the original was
        let before = ctx.view.clone();
        after(ctx, &*g, Expect::default());
        if tuple_of(&before) != tuple_of(&ctx.view) {
            ctx.viol("C14", "claim_guard_does_not_start_where_original_was".into(), format!("{:?} vs {:?}", tuple_of(&before), tuple_of(&ctx.view)));
        }
        if nested_unused {
            // a nested claim that nobody uses: the outer guard must continue afterwards
            ctx.begin("claim: nested claim on the guard, dropped unused".into());
            let inner = g.claim();
            if !g.is_claimed() {
                ctx.viol("C14", "is_claimed_false_during_claim".into(), "outer guard while the nested claim is alive".into());
            }
            drop(inner);
            if g.is_claimed() {
                ctx.viol("C14", "still_claimed_after_guard_drop".into(), "outer guard after the unused nested claim was dropped".into());
            }
            after(ctx, &*g, Expect::default());
        }
        if rounds == 0 && ctx.catch_depth > 0 && ctx.rng.chance(1, 3) {
            ctx.begin("unwind (injected panic leaves the unused claim)".into());
            std::panic::panic_any(InjectedExit);
        }
        for _ in 0..rounds {
            probe_claimed(orig, &*g, ctx);
            let q = ctx.rng.range(1, 14);
            level(&mut *g, ctx, depth, q);
        }
        if ctx.rng.bool() {
            probe_claimed(orig, &*g, ctx);
        }
    });
    ctx.claim_depth -= 1;
    let last = tuple_of(&ctx.view);
    ctx.begin(format!("claim: guard dropped{}", if unwound { " (unwinding)" } else { "" }));
    if orig.is_claimed() {
        ctx.viol("C14", "still_claimed_after_guard_drop".into(), String::new());
    }
    after(ctx, scope, Expect::default());
    let now = tuple_of(&ctx.view);
    if now != last {
        ctx.viol("C14", format!("original_does_not_resume_where_guard_stopped{}", if unwound { ":unwind" } else { "" }), format!("guard {:?} original {:?}", last, now));
    }
    if unwound {
        ctx.ev("claim_exit_unwind");
    }
}

fn probe_claimed<'a, A, S>(orig: &BumpScope<'a, A, S>, g: &BumpScope<'a, A, S>, ctx: &mut Ctx)
where
    A: MonHandle + BaseAllocator<S::GuaranteedAllocated>,
    S: BumpAllocatorSettings,
{
    let guard_before = snap(g.stats(), g.any_stats());
    ctx.begin("claim: probe original (stats, is_claimed)".into());
    if !orig.is_claimed() {
        ctx.viol("C14", "is_claimed_false_during_claim".into(), String::new());
    }
    // stats of the claimed original: all zero
    {
        let s = snap(orig.stats(), orig.any_stats());
        judge(ctx, s, Expect { empty: true, ..Default::default() }, S::UP, S::MIN_ALIGN);
    }
    let reject = |ctx: &mut Ctx, what: &str, ok: bool| {
        if ok {
            ctx.viol("C14", format!("claimed_original_served_request:{what}"), String::new());
        } else {
            ctx.ev("claim_op_rejected");
        }
    };
    for _ in 0..ctx.rng.range(1, 4) {
        match ctx.rng.below(9) {
            0 => {
                let l = Layout::from_size_align(ctx.rng.range(1, 64), 1 << ctx.rng.below(4)).unwrap();
                let h = ctx.rng.below(N_REF_HANDLES);
                ctx.begin(format!("claim: original.allocate size={} via {}", l.size(), HANDLE_NAMES[h]));
                match guarded(|| with_handle_ref(orig, h, |a| a.allocate(l))) {
                    Ok(r) => reject(ctx, "allocate", r.is_ok()),
                    Err(p) => ctx.viol("C14", "allocator_interface_panicked_while_claimed:allocate".into(), format!("{:?}", classify(&p))),
                }
            }
            1 => {
                ctx.begin("claim: original.try_alloc<u32>".into());
                match guarded(|| orig.try_alloc(5u32).map(|b| drop(b))) {
                    Ok(r) => reject(ctx, "try_alloc", r.is_ok()),
                    Err(p) => ctx.viol("C14", "try_method_panicked_while_claimed:try_alloc".into(), format!("{:?}", classify(&p))),
                }
            }
            2 => {
                ctx.begin("claim: original.alloc<u64> (must panic)".into());
                match guarded(|| drop(orig.alloc(7u64))) {
                    Ok(()) => reject(ctx, "alloc", true),
                    Err(p) => match classify(&p) {
                        PanicKind::Msg(m) if m.contains("claimed") => ctx.ev("claim_op_rejected"),
                        k => ctx.viol("C14", "wrong_panic_while_claimed:alloc".into(), format!("{k:?}")),
                    },
                }
            }
            3 => {
                let n = ctx.rng.range(1, 5000);
                ctx.begin(format!("claim: original.try_reserve {n}"));
                match guarded(|| orig.try_reserve(n)) {
                    Ok(r) => reject(ctx, "try_reserve", r.is_ok()),
                    Err(p) => ctx.viol("C14", "try_method_panicked_while_claimed:try_reserve".into(), format!("{:?}", classify(&p))),
                }
            }
            4 => {
                ctx.begin("claim: original.reserve (must panic)".into());
                match guarded(|| orig.reserve(100)) {
                    Ok(()) => reject(ctx, "reserve", true),
                    Err(p) => match classify(&p) {
                        PanicKind::Msg(m) if m.contains("claimed") => ctx.ev("claim_op_rejected"),
                        k => ctx.viol("C14", "wrong_panic_while_claimed:reserve".into(), format!("{k:?}")),
                    },
                }
            }
            5 => {
                ctx.begin("claim: second claim on the original (must panic)".into());
                match guarded(|| drop(orig.claim())) {
                    Ok(()) => ctx.viol("C14", "second_claim_succeeded".into(), String::new()),
                    Err(p) => match classify(&p) {
                        PanicKind::Msg(m) if m.contains("claimed") => ctx.ev("claim_op_rejected"),
                        k => ctx.viol("C14", "wrong_panic_on_second_claim".into(), format!("{k:?}")),
                    },
                }
            }
            6 => {
                // grow of an existing block through the original must fail and leave the block alone
                if let Some(i) = (!ctx.sh.blocks.is_empty()).then(|| ctx.rng.below(ctx.sh.blocks.len())).filter(|&i| !ctx.sh.blocks[i].ro) {
                    let (p, l) = (ctx.sh.blocks[i].ptr, ctx.sh.blocks[i].layout);
                    let nl = Layout::from_size_align(l.size() + ctx.rng.range(1, 40), l.align()).unwrap();
                    ctx.begin(format!("claim: original.grow block#{}", ctx.sh.blocks[i].id));
                    match guarded(|| unsafe { orig.grow(p, l, nl) }) {
                        Ok(r) => reject(ctx, "grow", r.is_ok()),
                        Err(p) => ctx.viol("C14", "allocator_interface_panicked_while_claimed:grow".into(), format!("{:?}", classify(&p))),
                    }
                }
            }
            7 => {
                // deallocate through the original does nothing (the block stays ours: we simply keep it)
                if let Some(i) = (!ctx.sh.blocks.is_empty()).then(|| ctx.sh.blocks.len() - 1).filter(|&i| !ctx.sh.blocks[i].ro) {
                    let (p, l) = (ctx.sh.blocks[i].ptr, ctx.sh.blocks[i].layout);
                    ctx.begin(format!("claim: original.deallocate block#{} (must do nothing)", ctx.sh.blocks[i].id));
                    // the block is handed back, so it is no longer ours afterwards
                    ctx.sh.take(i);
                    if let Err(p) = guarded(|| unsafe { orig.deallocate(p, l) }) {
                        ctx.viol("C14", "allocator_interface_panicked_while_claimed:deallocate".into(), format!("{:?}", classify(&p)));
                    }
                }
            }
            _ => {
                if let Some(i) = (!ctx.sh.blocks.is_empty()).then(|| ctx.sh.blocks.len() - 1).filter(|&i| !ctx.sh.blocks[i].ro) {
                    let (p, l) = (ctx.sh.blocks[i].ptr, ctx.sh.blocks[i].layout);
                    let nl = Layout::from_size_align(l.size() / 2, l.align()).unwrap();
                    ctx.begin(format!("claim: original.shrink block#{} (must do nothing)", ctx.sh.blocks[i].id));
                    match guarded(|| unsafe { orig.shrink(p, l, nl) }) {
                        Ok(Ok(np)) => {
                            if np.cast::<u8>() != p {
                                ctx.viol("C14", "shrink_through_claimed_original_moved_block".into(), String::new());
                            } else {
                                // continue with the smaller size
                                let b = ctx.sh.take(i);
                                let mut e = b.expect;
                                e.truncate(nl.size());
                                ctx.sh.add_with_contents(p, nl, b.depth, b.via, e);
                            }
                        }
                        Ok(Err(_)) => {}
                        Err(p) => ctx.viol("C14", "allocator_interface_panicked_while_claimed:shrink".into(), format!("{:?}", classify(&p))),
                    }
                }
            }
        }
        // nothing the original did may have changed the guard's arena
        let s = snap(g.stats(), g.any_stats());
        if s.typed != guard_before.typed {
            ctx.viol("C14", "operation_on_claimed_original_changed_arena".into(), format!("after {}", ctx.desc));
        }
        judge(ctx, s, Expect::default(), S::UP, S::MIN_ALIGN);
    }
}

/// C03: the same deterministic workload twice in fresh scopes; the second run must not need the
/// base allocator.
pub fn op_replay<'a, A, S>(scope: &mut BumpScope<'a, A, S>, ctx: &mut Ctx, depth: u32)
where
    A: MonHandle + BaseAllocator<S::GuaranteedAllocated>,
    S: BumpAllocatorSettings,
{
    // a fat workload: fills well over half of every chunk it enters
    let cap = ctx.view.typed.cur.map(|c| c.capacity).unwrap_or(S::MINIMUM_CHUNK_SIZE.max(512));
    let total = (cap * ctx.rng.range(2, 5)).min(if ctx.p.small { 4000 } else { 60000 });
    let mut w: Vec<Layout> = Vec::new();
    let mut sum = 0;
    while sum < total {
        let a = 1usize << ctx.rng.below(5);
        let sz = ctx.rng.range(cap / 8 + 1, cap / 2 + 40);
        w.push(Layout::from_size_align(sz, a).unwrap());
        sum += sz;
    }
    let entry = tuple_of(&ctx.view);
    let mut calls = [0u64; 2];
    for round in 0..2 {
        ctx.begin(format!("replay-scope round {round}: {} allocations, {} bytes", w.len(), sum));
        let before_calls = ctx.mon.borrow().alloc_calls;
        let mut failed = false;
        scope.scoped(|inner| {
            for l in &w {
                if inner.allocate(*l).is_err() {
                    failed = true;
                    break;
                }
            }
        });
        calls[round] = ctx.mon.borrow().alloc_calls - before_calls;
        after(ctx, scope, Expect { may_decrease: true, no_release: true, ..Default::default() });
        check_restored(ctx, entry, "replay_scope", S::UP);
        if failed {
            return;
        }
    }
    if calls[1] != 0 {
        ctx.viol("C03", "replayed_workload_needed_new_memory".into(), format!("first run {} base calls, second run {}", calls[0], calls[1]));
    }
    ctx.ev("replay_scope");
    let _ = depth;
}
