//! Tracked element types, drop ledger and panic fuel (used by the collection drivers).
//!
//! `Tr` carries an identity (`id`, unique per instance), a value (`val`, what the std model stores)
//! and a heap allocation (so that double drops / use after move become sanitizer events as well).
//! `TrZ` is the zero-sized twin (counted, no identity).  Every user callback the library can reach
//! (Clone, PartialEq, Drop, and the closures/iterators the drivers pass in) burns panic fuel.

use std::cell::{Cell, RefCell};
use std::mem::ManuallyDrop;

/// Marker payload of an injected callback panic.
pub struct FuelPanic;

#[derive(Default)]
pub struct Ledger {
    /// drops[id] = number of times `Drop` ran for that identity
    pub drops: Vec<u8>,
    pub created: u64,
    pub dropped: u64,
    pub double_drops: Vec<u32>,
    pub use_after_drop: Vec<u32>,
    pub z_created: u64,
    pub z_dropped: u64,
    /// callbacks counted since the last reset (for fault enumeration)
    pub callbacks: u64,
    /// the injected panic came out of a `Drop` implementation
    pub panicked_in_drop: bool,
}

thread_local! {
    pub static LEDGER: RefCell<Ledger> = RefCell::new(Ledger::default());
    static FUEL: Cell<Option<u64>> = const { Cell::new(None) };
    static IN_DROP: Cell<u32> = const { Cell::new(0) };
}

pub fn reset_ledger() {
    LEDGER.with(|l| *l.borrow_mut() = Ledger::default());
    FUEL.with(|f| f.set(None));
}

pub fn set_fuel(f: Option<u64>) {
    FUEL.with(|c| c.set(f));
}

pub fn fuel_armed() -> bool {
    FUEL.with(|c| c.get().is_some())
}

/// Called by every callback.  Panics with `FuelPanic` when the fuel runs out.
pub fn burn() {
    LEDGER.with(|l| l.borrow_mut().callbacks += 1);
    let fire = FUEL.with(|c| match c.get() {
        Some(0) => {
            c.set(None);
            true
        }
        Some(n) => {
            c.set(Some(n - 1));
            false
        }
        None => false,
    });
    if fire {
        if std::thread::panicking() {
            // a second panic while unwinding would abort the process
            return;
        }
        if IN_DROP.with(|d| d.get()) > 0 {
            LEDGER.with(|l| l.borrow_mut().panicked_in_drop = true);
        }
        std::panic::panic_any(FuelPanic);
    }
}

pub trait Elem: Sized + Clone + PartialEq + std::fmt::Debug + 'static {
    const NAME: &'static str;
    const ZST: bool = false;
    const TRACKED: bool = false;
    /// values are taken modulo this
    const MODULUS: u32;
    fn make(val: u32) -> Self;
    fn val(&self) -> u32;
    /// identity, for tracked non-zero-sized elements
    fn id(&self) -> Option<u32> {
        None
    }
    fn dup(&self) -> Self;
    fn same(&self, other: &Self) -> bool {
        self.val() == other.val()
    }
}

macro_rules! plain_elem {
    ($t:ty, $name:literal, $m:expr, $mk:expr, $val:expr) => {
        impl Elem for $t {
            const NAME: &'static str = $name;
            const MODULUS: u32 = $m;
            fn make(val: u32) -> Self {
                ($mk)(val % $m)
            }
            fn val(&self) -> u32 {
                ($val)(self)
            }
            fn dup(&self) -> Self {
                *self
            }
        }
    };
}
plain_elem!(u8, "u8", 251, |v: u32| v as u8, |s: &u8| *s as u32);
plain_elem!(u32, "u32", 1_000_003, |v: u32| v, |s: &u32| *s);
plain_elem!(u64, "u64", 1_000_003, |v: u32| (v as u64) * 0x1_0000_0001, |s: &u64| (*s & 0xFFFF_FFFF) as u32);
plain_elem!([u8; 3], "[u8;3]", 1 << 24, |v: u32| [v as u8, (v >> 8) as u8, (v >> 16) as u8], |s: &[u8; 3]| s[0] as u32 | (s[1] as u32) << 8 | (s[2] as u32) << 16);

impl Elem for () {
    const NAME: &'static str = "()";
    const ZST: bool = true;
    const MODULUS: u32 = 1;
    fn make(_: u32) -> Self {}
    fn val(&self) -> u32 {
        0
    }
    fn dup(&self) -> Self {}
}

pub struct Tr {
    pub id: u32,
    pub val: u32,
    heap: ManuallyDrop<Box<u32>>,
}

impl Tr {
    pub fn new(val: u32) -> Tr {
        let id = LEDGER.with(|l| {
            let mut l = l.borrow_mut();
            l.drops.push(0);
            l.created += 1;
            (l.drops.len() - 1) as u32
        });
        Tr { id, val, heap: ManuallyDrop::new(Box::new(val ^ 0x5A5A)) }
    }
    fn check_alive(&self) {
        let dead = LEDGER.with(|l| l.borrow().drops.get(self.id as usize).copied().unwrap_or(1) > 0);
        if dead {
            LEDGER.with(|l| l.borrow_mut().use_after_drop.push(self.id));
        } else if **self.heap != self.val ^ 0x5A5A {
            LEDGER.with(|l| l.borrow_mut().use_after_drop.push(self.id));
        }
    }
}

impl Drop for Tr {
    fn drop(&mut self) {
        let first = LEDGER.with(|l| {
            let mut l = l.borrow_mut();
            let d = &mut l.drops[self.id as usize];
            *d = d.saturating_add(1);
            let first = *d == 1;
            if first {
                l.dropped += 1;
            } else {
                let id = self.id;
                l.double_drops.push(id);
            }
            first
        });
        if first {
            unsafe { ManuallyDrop::drop(&mut self.heap) };
        }
        IN_DROP.with(|d| d.set(d.get() + 1));
        struct Dec;
        impl Drop for Dec {
            fn drop(&mut self) {
                IN_DROP.with(|d| d.set(d.get() - 1));
            }
        }
        let _dec = Dec;
        burn();
    }
}

impl Clone for Tr {
    fn clone(&self) -> Tr {
        burn();
        self.check_alive();
        Tr::new(self.val)
    }
}
impl PartialEq for Tr {
    fn eq(&self, o: &Tr) -> bool {
        burn();
        self.check_alive();
        o.check_alive();
        self.val == o.val
    }
}
impl std::fmt::Debug for Tr {
    fn fmt(&self, f: &mut std::fmt::Formatter<'_>) -> std::fmt::Result {
        write!(f, "Tr#{}({})", self.id, self.val)
    }
}

impl Elem for Tr {
    const NAME: &'static str = "Tr";
    const TRACKED: bool = true;
    const MODULUS: u32 = 16;
    fn make(val: u32) -> Self {
        Tr::new(val % 16)
    }
    fn val(&self) -> u32 {
        self.check_alive();
        self.val
    }
    fn id(&self) -> Option<u32> {
        Some(self.id)
    }
    fn dup(&self) -> Self {
        Tr::new(self.val)
    }
}

/// zero-sized tracked element
pub struct TrZ;
impl TrZ {
    pub fn new() -> TrZ {
        LEDGER.with(|l| l.borrow_mut().z_created += 1);
        TrZ
    }
}
impl Drop for TrZ {
    fn drop(&mut self) {
        LEDGER.with(|l| l.borrow_mut().z_dropped += 1);
        IN_DROP.with(|d| d.set(d.get() + 1));
        struct Dec;
        impl Drop for Dec {
            fn drop(&mut self) {
                IN_DROP.with(|d| d.set(d.get() - 1));
            }
        }
        let _dec = Dec;
        burn();
    }
}
impl Clone for TrZ {
    fn clone(&self) -> TrZ {
        burn();
        TrZ::new()
    }
}
impl PartialEq for TrZ {
    fn eq(&self, _: &TrZ) -> bool {
        burn();
        true
    }
}
impl std::fmt::Debug for TrZ {
    fn fmt(&self, f: &mut std::fmt::Formatter<'_>) -> std::fmt::Result {
        write!(f, "TrZ")
    }
}
impl Elem for TrZ {
    const NAME: &'static str = "TrZ";
    const ZST: bool = true;
    const TRACKED: bool = true;
    const MODULUS: u32 = 1;
    fn make(_: u32) -> Self {
        TrZ::new()
    }
    fn val(&self) -> u32 {
        0
    }
    fn dup(&self) -> Self {
        TrZ::new()
    }
}

/// Snapshot of the ledger used by the conservation oracle.
pub struct LedgerView {
    pub created: u64,
    pub dropped: u64,
    pub z_live: i64,
    pub double_drops: Vec<u32>,
    pub use_after_drop: Vec<u32>,
    pub live_ids: Vec<u32>,
    pub panicked_in_drop: bool,
    pub callbacks: u64,
}

pub fn ledger_view() -> LedgerView {
    LEDGER.with(|l| {
        let l = l.borrow();
        LedgerView {
            created: l.created,
            dropped: l.dropped,
            z_live: l.z_created as i64 - l.z_dropped as i64,
            double_drops: l.double_drops.clone(),
            use_after_drop: l.use_after_drop.clone(),
            live_ids: l.drops.iter().enumerate().filter(|(_, d)| **d == 0).map(|(i, _)| i as u32).collect(),
            panicked_in_drop: l.panicked_in_drop,
            callbacks: l.callbacks,
        }
    })
}

pub fn clear_incidents() {
    LEDGER.with(|l| {
        let mut l = l.borrow_mut();
        l.double_drops.clear();
        l.use_after_drop.clear();
    });
}

pub fn callbacks() -> u64 {
    LEDGER.with(|l| l.borrow().callbacks)
}
