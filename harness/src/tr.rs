//! Tracked element types, drop ledger and panic fuel (used by the collection drivers).

/// Marker payload of an injected callback panic.
pub struct FuelPanic;
