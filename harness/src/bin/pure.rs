//! C11 / C12 (pure part): the real `bumping.rs` and `chunk/size_config.rs`, compiled from /repo's
//! working tree, evaluated next to a wide-integer reference specification on adversarial inputs.
//!
//! pure --what bumping|chunksize --n 1000000 --seed S --shard K

#![allow(dead_code, unused_imports, clippy::all)]

#[path = "/repo/src/bumping.rs"]
mod bumping;
#[path = "/repo/src/chunk/size_config.rs"]
mod size_config;

use bumping::{BumpProps, bump_down, bump_prepare_down, bump_prepare_up, bump_up};
use size_config::ChunkSizeConfig;
use std::alloc::Layout;
use std::panic::{AssertUnwindSafe, catch_unwind};
use vh::out::{Args, Report, Viol};
use vh::rng::{Rng, mix};

const TOP: usize = usize::MAX & !15;

fn up_align(x: u128, a: u128) -> u128 {
    (x + a - 1) / a * a
}
fn down_align(x: u128, a: u128) -> u128 {
    x / a * a
}

#[derive(Clone, Copy, Debug)]
struct Input {
    start: usize,
    end: usize,
    size: usize,
    align: usize,
    min_align: usize,
    dummy: bool,
}

fn gen_addr_end(rng: &mut Rng) -> usize {
    // an address that can be a chunk end: multiple of 16, non-zero
    let a = match rng.below(6) {
        0 => 16 * rng.range(1, 64),
        1 => (1usize << rng.range(5, 62)) + 16 * rng.range(0, 300),
        2 => (1usize << rng.range(5, 63)).wrapping_sub(16 * rng.range(1, 300)),
        3 => TOP - 16 * rng.range(0, 600),
        4 => (rng.next() as usize) & !15,
        _ => 0x5555_0000_0000 + 16 * rng.range(0, 1 << 20),
    };
    if a < 16 { 16 } else { a }
}

fn gen_input(rng: &mut Rng, up: bool) -> Input {
    let min_align = 1usize << rng.below(5);
    let align = 1usize << match rng.below(10) {
        0..=5 => rng.below(5),
        6 | 7 => rng.range(5, 12),
        8 => rng.range(12, 29),
        _ => rng.range(0, 29),
    };
    let dummy = rng.chance(1, 12);
    // the 16-aligned side of the free range and its length
    let len = match rng.below(7) {
        0 => 0,
        1 => rng.range(0, 64),
        2 => rng.range(64, 4096),
        3 => rng.range(4096, 1 << 20),
        4 => (isize::MAX as usize) - rng.range(0, 4096),
        5 => 1usize << rng.range(12, 62),
        _ => rng.range(0, 600),
    };
    let (start, end);
    if dummy {
        // capacity -16: start = end + 16, both 16-aligned
        let e = gen_addr_end(rng).min(TOP - 16);
        end = e;
        start = e + 16;
    } else if up {
        // end is the 16-aligned chunk end, start the min-aligned position
        let e = gen_addr_end(rng);
        let len = len.min(e - 1).min(isize::MAX as usize);
        let s = (e - len).max(1).min(e);
        let s = (s + (min_align - 1)) & !(min_align - 1);
        end = e;
        start = s.min(e);
    } else {
        // start is the 16-aligned chunk start, end the min-aligned position
        let s = gen_addr_end(rng).min(TOP - 16);
        let len = len.min(TOP - s).min(isize::MAX as usize);
        let e = (s + len) & !(min_align - 1);
        start = s;
        end = e.max(s);
    }
    let rem = if dummy { 0 } else { end - start };
    let max_size = (isize::MAX as usize) - (align - 1);
    let size = match rng.below(9) {
        0 => 0,
        1 => rng.range(1, 15),
        2 => 16,
        3 => rng.range(17, 600),
        4 | 5 => {
            let d = *rng.pick(&[0usize, 1, 2, min_align, align, 15, 16, 17]);
            if rng.bool() { rem.saturating_add(d) } else { rem.saturating_sub(d) }
        }
        6 => max_size - rng.range(0, 64).min(max_size),
        7 => rng.range(0, 64) * align.min(1 << 20),
        _ => rem / 2,
    }
    .min(max_size);
    Input { start, end, size, align, min_align, dummy }
}

fn props(i: &Input, ac: bool, sc: bool, sm: bool) -> BumpProps {
    BumpProps {
        start: i.start,
        end: i.end,
        min_align: i.min_align,
        layout: Layout::from_size_align(i.size, i.align).unwrap(),
        align_is_const: ac,
        size_is_const: sc,
        size_is_multiple_of_align: sm,
    }
}

/// all hint combinations that are *true* for the layout (`size_is_const` implies `align_is_const`)
fn hint_combos(i: &Input) -> Vec<(bool, bool, bool)> {
    let mut v = Vec::new();
    for ac in [false, true] {
        for sc in [false, true] {
            if sc && !ac {
                continue;
            }
            for sm in [false, true] {
                if sm && i.size % i.align != 0 {
                    continue;
                }
                v.push((ac, sc, sm));
            }
        }
    }
    v
}

#[derive(Debug, PartialEq, Eq, Clone, Copy)]
enum R2 {
    None,
    Some(usize, usize),
    Panic,
}

fn spec_up(i: &Input) -> R2 {
    let (s, e, sz, al, ma) = (i.start as u128, i.end as u128, i.size as u128, i.align as u128, i.min_align as u128);
    if i.dummy {
        return R2::None;
    }
    let p = up_align(s, al);
    if p + sz > e {
        return R2::None;
    }
    let np = up_align(p + sz, ma);
    R2::Some(p as usize, np as usize)
}

fn spec_down(i: &Input) -> R2 {
    let (s, e, sz, al, ma) = (i.start as u128, i.end as u128, i.size as u128, i.align as u128, i.min_align as u128);
    if i.dummy || sz > e {
        return R2::None;
    }
    let p = down_align(e - sz, al.max(ma));
    if p < s {
        return R2::None;
    }
    R2::Some(p as usize, p as usize)
}

fn spec_prepare_up(i: &Input) -> R2 {
    let (s, e, sz, al) = (i.start as u128, i.end as u128, i.size as u128, i.align as u128);
    if i.dummy {
        return R2::None;
    }
    let p = up_align(s, al);
    if p > e || sz > e - p {
        return R2::None;
    }
    R2::Some(p as usize, down_align(e, al) as usize)
}

fn spec_prepare_down(i: &Input) -> R2 {
    let (s, e, sz, al) = (i.start as u128, i.end as u128, i.size as u128, i.align as u128);
    if i.dummy {
        return R2::None;
    }
    let pe = down_align(e, al);
    if pe < s || sz > pe - s {
        return R2::None;
    }
    R2::Some(up_align(s, al) as usize, pe as usize)
}

fn viol(rep: &mut Report, prop: &'static str, sig: &str, detail: String, n: u64) {
    rep.viol(Viol { prop, sig: sig.to_string(), detail, config: "pure".into(), hist: n, op: 0, opdesc: sig.to_string() });
}

fn run_bumping(rep: &mut Report, n: u64, seed: u64, shard: u64) {
    let mut rng = Rng::new(mix(&[seed, shard, 0xB0B]));
    for k in 0..n {
        let up = rng.bool();
        let i = gen_input(&mut rng, up);
        let class = format!(
            "{}:{}:{}",
            if up { "up" } else { "down" },
            if i.dummy { "dummy" } else if i.end > TOP - (1 << 20) { "near_top" } else if i.start < 1 << 16 { "near_zero" } else { "mid" },
            if i.align <= i.min_align { "align<=min" } else if i.align <= 16 { "align<=16" } else { "align>16" }
        );
        let (sa, sp) = if up { (spec_up(&i), spec_prepare_up(&i)) } else { (spec_down(&i), spec_prepare_down(&i)) };
        rep.count(&format!("{class}:{}", if matches!(sa, R2::None) { "does_not_fit" } else { "fits" }));
        rep.histories += 1;
        let mut first: Option<(R2, R2)> = None;
        for (ac, sc, sm) in hint_combos(&i) {
            rep.ops += 1;
            let got_a = match catch_unwind(AssertUnwindSafe(|| {
                if up {
                    match bump_up(props(&i, ac, sc, sm)) {
                        None => R2::None,
                        Some(b) => R2::Some(b.ptr, b.new_pos),
                    }
                } else {
                    match bump_down(props(&i, ac, sc, sm)) {
                        None => R2::None,
                        Some(p) => R2::Some(p, p),
                    }
                }
            })) {
                Ok(r) => r,
                Err(_) => R2::Panic,
            };
            let got_p = match catch_unwind(AssertUnwindSafe(|| {
                let r = if up { bump_prepare_up(props(&i, ac, sc, sm)) } else { bump_prepare_down(props(&i, ac, sc, sm)) };
                match r {
                    None => R2::None,
                    Some(r) => R2::Some(r.start, r.end),
                }
            })) {
                Ok(r) => r,
                Err(_) => R2::Panic,
            };
            let hints = format!("align_const={ac} size_const={sc} multiple={sm}");
            let name = if up { "bump_up" } else { "bump_down" };
            if got_a == R2::Panic {
                viol(rep, "C11", &format!("{name}_panicked"), format!("{i:?} {hints}"), k);
            } else if got_a != sa {
                let sig = match (got_a, sa) {
                    (R2::None, R2::Some(..)) => format!("{name}_rejects_request_that_fits"),
                    (R2::Some(..), R2::None) => format!("{name}_accepts_request_that_does_not_fit"),
                    _ => format!("{name}_wrong_block_or_position"),
                };
                viol(rep, "C11", &sig, format!("{i:?} {hints}: got {got_a:?} expected {sa:?}"), k);
            }
            // prepare: exact agreement is required only for sizes that are multiples of the alignment;
            // otherwise: never a panic, ends aligned, range inside the free space
            let pname = if up { "bump_prepare_up" } else { "bump_prepare_down" };
            if got_p == R2::Panic {
                viol(rep, "C11", &format!("{pname}_panicked"), format!("{i:?} {hints}"), k);
            } else if i.size % i.align == 0 {
                if got_p != sp {
                    viol(rep, "C11", &format!("{pname}_not_the_largest_aligned_range"), format!("{i:?} {hints}: got {got_p:?} expected {sp:?}"), k);
                } else if let R2::Some(a, b) = got_p {
                    if b - a < i.size {
                        viol(rep, "C11", &format!("{pname}_range_smaller_than_request"), format!("{i:?} {hints}: {a:#x}..{b:#x}"), k);
                    }
                }
            } else if let R2::Some(a, b) = got_p {
                if a % i.align != 0 || b % i.align != 0 || a < i.start || b > i.end {
                    viol(rep, "C11", &format!("{pname}_range_misaligned_or_outside"), format!("{i:?} {hints}: {a:#x}..{b:#x}"), k);
                }
            }
            match first {
                None => first = Some((got_a, got_p)),
                Some((fa, fp)) => {
                    if fa != got_a {
                        viol(rep, "C11", &format!("{name}_depends_on_hints"), format!("{i:?}: {fa:?} vs {got_a:?} with {hints}"), k);
                    }
                    if fp != got_p {
                        viol(rep, "C11", &format!("{pname}_depends_on_hints"), format!("{i:?}: {fp:?} vs {got_p:?} with {hints}"), k);
                    }
                }
            }
        }
        // distinct non-trivial inputs: hash of the input class + exact numbers
        let h = mix(&[i.start as u64, i.end as u64, i.size as u64, i.align as u64, i.min_align as u64]);
        if !i.dummy && i.size > 0 && rep.nontrivial.len() < 200_000 {
            rep.nontrivial.insert(h);
        }
        rep.states.insert(vh::rng::hash_str(&class));
        if rep.samples.len() < 3 && k % 977 == 0 {
            rep.samples.push(format!("{} {i:?} -> alloc {sa:?} prepare {sp:?}", if up { "up" } else { "down" }));
        }
    }
}

// ------------------------------------------------------------------------------------------------
// C12: chunk size computations

fn gen_cfg(rng: &mut Rng) -> ChunkSizeConfig {
    // ChunkHeader<A>: repr(C, align(16)); four pointers then the allocator value
    let a_align = 1usize << rng.below(9); // 1..256
    let a_size = (match rng.below(4) {
        0 => 0,
        1 => rng.range(0, 32),
        _ => rng.range(0, 256),
    } + a_align - 1)
        / a_align
        * a_align;
    let h_align = a_align.max(16);
    let h_size = ((32 + a_align - 1) / a_align * a_align + a_size + h_align - 1) / h_align * h_align;
    ChunkSizeConfig { up: rng.bool(), assumed_malloc_overhead_layout: Layout::new::<[usize; 2]>(), chunk_header_layout: Layout::from_size_align(h_size, h_align).unwrap() }
}

fn gen_layout(rng: &mut Rng) -> Layout {
    let align = 1usize << match rng.below(8) {
        0..=3 => rng.below(5),
        4 | 5 => rng.range(5, 13),
        6 => rng.range(13, 29),
        _ => rng.range(0, 29),
    };
    let max = (isize::MAX as usize) - (align - 1);
    let size = match rng.below(8) {
        0 => 0,
        1 => rng.range(1, 64),
        2 => rng.range(64, 5000),
        3 => {
            let p = 1usize << rng.range(4, 40);
            (p + rng.range(0, 64)).saturating_sub(32)
        }
        4 => 4096 * rng.range(1, 600) + rng.range(0, 64) - 32,
        5 => max - rng.range(0, 5000).min(max),
        6 => 1usize << rng.range(30, 62),
        _ => rng.range(0, 1 << 20),
    }
    .min(max);
    Layout::from_size_align(size, align).unwrap()
}

fn run_chunksize(rep: &mut Report, n: u64, seed: u64, shard: u64) {
    let mut rng = Rng::new(mix(&[seed, shard, 0xC12]));
    for k in 0..n {
        rep.histories += 1;
        rep.ops += 1;
        let cfg = gen_cfg(&mut rng);
        let (hs, ha) = (cfg.chunk_header_layout.size(), cfg.chunk_header_layout.align());
        let l = gen_layout(&mut rng);
        let min_chunk = *rng.pick(&[0usize, 1, 512, 4096, 100_000]);
        let min_align = 1usize << rng.below(5);
        let tag = format!("up={} header={hs}/{ha} layout={}/{} min_chunk={min_chunk}", cfg.up, l.size(), l.align());
        let step = ha.max(16);
        // direct calls with arbitrary (also unrepresentable) byte counts and hints: overflow must be
        // reported as None, never wrapped (reserve(usize) and with_size(usize) reach these)
        {
            let bytes = match rng.below(4) {
                0 => usize::MAX - rng.range(0, 4096),
                1 => (isize::MAX as usize) + rng.range(0, 1 << 20),
                2 => rng.next() as usize,
                _ => rng.range(0, 1 << 16),
            };
            let wide: u128 = if cfg.up { up_align(16, ha as u128) + hs as u128 + bytes as u128 + 16 } else { up_align(16 + bytes as u128, ha as u128) + hs as u128 + 16 };
            match catch_unwind(AssertUnwindSafe(|| cfg.calc_hint_from_capacity_bytes(bytes))) {
                Err(_) => viol(rep, "C12", "chunk_size_computation_panicked", format!("calc_hint_from_capacity_bytes({bytes}) header {hs}/{ha}"), k),
                Ok(Some(h)) => {
                    if h as u128 != wide {
                        viol(rep, "C12", "capacity_hint_wrapped_or_wrong", format!("bytes {bytes} header {hs}/{ha} up={}: hint {h} wide {wide}", cfg.up), k);
                    }
                }
                Ok(None) => {
                    if wide <= usize::MAX as u128 {
                        viol(rep, "C12", "capacity_hint_refused_without_overflow", format!("bytes {bytes} header {hs}/{ha}: wide {wide}"), k);
                    }
                    rep.count("hint_overflow_reported");
                }
            }
            let hint = match rng.below(4) {
                0 => usize::MAX - rng.range(0, 10000),
                1 => rng.next() as usize,
                2 => (1usize << rng.range(10, 63)) + rng.range(0, 5000),
                _ => rng.range(0, 100000),
            };
            let step128 = (ha.max(4096)) as u128;
            let min128 = up_align(16, ha as u128) + hs as u128;
            let h128 = (hint as u128).max(min128);
            let mut wide_size = if h128 < step128 { (h128 as usize).next_power_of_two() as u128 } else { up_align(h128, step128) };
            let overflow = wide_size > usize::MAX as u128;
            if cfg.up || ha <= 16 {
                wide_size = down_align(wide_size - 16, if cfg.up { 16 } else { (ha.max(16)) as u128 });
            }
            match catch_unwind(AssertUnwindSafe(|| cfg.calc_size_from_hint(hint))) {
                Err(_) => viol(rep, "C12", "chunk_size_computation_panicked", format!("calc_size_from_hint({hint}) header {hs}/{ha}"), k),
                Ok(Some(sz)) => {
                    if overflow || sz.get() as u128 != wide_size {
                        viol(rep, "C12", "chunk_size_wrapped_or_wrong", format!("hint {hint} header {hs}/{ha} up={}: size {} wide {wide_size} overflow {overflow}", cfg.up, sz.get()), k);
                    }
                    if (sz.get() as u128) + 16 < (hint as u128).min(usize::MAX as u128 / 2) {
                        viol(rep, "C12", "chunk_size_smaller_than_hint", format!("hint {hint} size {}", sz.get()), k);
                    }
                }
                Ok(None) => {
                    if !overflow {
                        viol(rep, "C12", "chunk_size_refused_without_overflow", format!("hint {hint} header {hs}/{ha}"), k);
                    }
                    rep.count("size_overflow_reported");
                }
            }
        }
        let r = catch_unwind(AssertUnwindSafe(|| {
            let hint = cfg.calc_hint_from_capacity(l);
            let size = hint.and_then(|h| cfg.calc_size_from_hint(h.max(min_chunk)));
            (hint, size)
        }));
        let (hint, size) = match r {
            Ok(x) => x,
            Err(_) => {
                viol(rep, "C12", "chunk_size_computation_panicked", tag.clone(), k);
                continue;
            }
        };
        // wide-integer recomputation of the hint: a wrapped result is a violation
        let pad = (l.align() as u128).saturating_sub(ha as u128);
        let need_bytes = l.size() as u128 + pad;
        let wide_hint: u128 = if cfg.up { up_align(16, ha as u128) + hs as u128 + need_bytes + 16 } else { up_align(16 + need_bytes, ha as u128) + hs as u128 + 16 };
        match hint {
            Some(h) => {
                if h as u128 != wide_hint {
                    viol(rep, "C12", "capacity_hint_wrapped_or_wrong", format!("{tag}: hint {h} wide {wide_hint}"), k);
                }
            }
            None => {
                if wide_hint <= usize::MAX as u128 {
                    viol(rep, "C12", "capacity_hint_refused_without_overflow", format!("{tag}: wide {wide_hint}"), k);
                }
                rep.count("hint_overflow_reported");
                continue;
            }
        }
        let Some(size) = size else {
            // may only be refused when rounding up would overflow
            let want = wide_hint.max(min_chunk as u128);
            if want + (step.max(4096) as u128) < usize::MAX as u128 / 2 {
                viol(rep, "C12", "chunk_size_refused_without_overflow", format!("{tag}: hint {want}"), k);
            }
            rep.count("size_overflow_reported");
            continue;
        };
        let size = size.get();
        rep.count(if cfg.up { "up_sized" } else { "down_sized" });
        if size % 16 != 0 || (!cfg.up && size % ha != 0) {
            viol(rep, "C12", "chunk_size_not_multiple_of_16_or_header_align", format!("{tag}: size {size}"), k);
        }
        if (size as u128) < hs as u128 + l.size() as u128 + pad {
            viol(rep, "C12", "chunk_size_smaller_than_header_plus_capacity", format!("{tag}: size {size}"), k);
        }
        if size > isize::MAX as usize {
            // the arena turns this into an allocation error through Layout::from_size_align
            rep.count("size_beyond_isize");
            continue;
        }
        // the fit property, for several base addresses and granted sizes
        for t in 0..4 {
            let extra = match t {
                0 => 0,
                1 => rng.range(1, 15),
                2 => rng.range(16, 5000),
                _ => rng.range(0, 64),
            };
            let granted = size + extra;
            let used = cfg.align_size(granted);
            if used < size || used % 16 != 0 || (!cfg.up && used % ha != 0) {
                viol(rep, "C12", "align_size_result_unusable", format!("{tag}: granted {granted} used {used}"), k);
                continue;
            }
            // worst-case base address for the layout's alignment: congruent to `ha` modulo the layout alignment
            let la = l.align().max(ha) as u128;
            let base: u128 = match t {
                0 | 1 => la * rng.range(1, 1000) as u128 + ha as u128 * if la > ha as u128 { 1 } else { 0 },
                2 => la * rng.range(1, 1000) as u128,
                _ => ha as u128 * rng.range(1, 100000) as u128,
            };
            let fits = if cfg.up {
                let cs = base + hs as u128;
                let ce = base + used as u128;
                up_align(cs, l.align() as u128) + l.size() as u128 <= ce
            } else {
                let cs = base;
                let ce = base + used as u128 - hs as u128;
                ce >= l.size() as u128 && down_align(ce - l.size() as u128, l.align().max(min_align) as u128) >= cs
            };
            if !fits {
                viol(rep, "C12", "fresh_chunk_does_not_fit_the_layout_it_was_created_for", format!("{tag}: size {size} granted {granted} used {used} base {base:#x} min_align {min_align}"), k);
            }
            rep.count("fit_checked");
        }
        // growth: a later chunk is never smaller than twice the previous one less 16 bytes
        if size < (1usize << 61) {
            if let Ok(Some(next)) = catch_unwind(AssertUnwindSafe(|| cfg.calc_size_from_hint((size * 2).max(min_chunk)))) {
                if next.get() + 16 < 2 * size {
                    viol(rep, "C12", "next_chunk_smaller_than_twice_previous", format!("{tag}: prev {size} next {}", next.get()), k);
                }
                rep.count("growth_checked");
            }
        }
        let h = mix(&[hs as u64, ha as u64, l.size() as u64, l.align() as u64, cfg.up as u64, min_chunk as u64]);
        if l.size() > 0 && rep.nontrivial.len() < 200_000 {
            rep.nontrivial.insert(h);
        }
        rep.states.insert(mix(&[hs as u64, ha as u64, cfg.up as u64]));
        if rep.samples.len() < 3 && k % 1201 == 0 {
            rep.samples.push(format!("{tag} -> hint {hint:?} size {size}"));
        }
    }
}

fn main() {
    let a = Args::parse();
    if a.flag("noop") {
        return;
    }
    if !a.flag("loud") {
        std::panic::set_hook(Box::new(|_| {}));
    }
    let what = a.str("what", "bumping");
    let n = a.u64("n", 100_000);
    let seed = a.u64("seed", 1);
    let shard = a.u64("shard", 0);
    let mut rep = Report::new(false);
    rep.max_viols = 20;
    match what.as_str() {
        "bumping" => run_bumping(&mut rep, n, seed, shard),
        _ => run_chunksize(&mut rep, n, seed, shard),
    }
    rep.emit(&format!(",\"bin\":\"pure\",\"what\":\"{what}\",\"seed\":{seed},\"shard\":{shard}"));
}
