//! C19: a `BumpPool` under concurrent get / allocate / drop, watched by a registry of live guards,
//! a peak counter, a global list of patterned blocks, the thread-safe `MonAlloc` ledger and an event log.
//!
//! pool --seed S --shard K --runs R [--threads T] [--cycles C]

use bump_scope::alloc::AllocError;
use bump_scope::settings::{BumpAllocatorSettings, BumpSettings};
use bump_scope::{BaseAllocator, BumpPool, BumpPoolGuard};
use std::alloc::Layout;
use std::collections::{BTreeMap, BTreeSet};
use std::sync::atomic::{AtomicI64, AtomicU64, Ordering::SeqCst};
use std::sync::{Arc, Barrier, Mutex};
use vh::monalloc::{FailPlan, MArc, MonState, Policy};
use vh::out::{Args, Report, Viol};
use vh::rng::{Rng, hash_str, mix};
use vh::shadow::pattern;

struct Blk {
    ptr: *mut u8,
    len: usize,
    seed: u32,
    arena: usize,
    thread: usize,
}
unsafe impl Send for Blk {}

#[derive(Clone, Copy, Debug, PartialEq, Eq)]
enum Ev {
    Get,
    Got(usize, bool),
    Drop(usize),
}

struct Shared {
    live: Mutex<BTreeMap<usize, usize>>, // arena identity -> thread holding it
    blocks: Mutex<Vec<Blk>>,
    held: AtomicI64,
    peak: AtomicI64,
    seq: AtomicU64,
    log: Mutex<Vec<(u64, usize, Ev)>>,
    viols: Mutex<Vec<(String, String)>>,
    seen_by: Mutex<BTreeMap<usize, BTreeSet<usize>>>,
    known_arenas: Mutex<BTreeSet<usize>>,
}

impl Shared {
    fn ev(&self, thread: usize, e: Ev) {
        let s = self.seq.fetch_add(1, SeqCst);
        self.log.lock().unwrap().push((s, thread, e));
    }
    fn viol(&self, sig: &str, d: String) {
        let mut v = self.viols.lock().unwrap();
        if v.len() < 20 {
            v.push((sig.to_string(), d));
        }
    }
}

fn identity<S: BumpAllocatorSettings>(g: &BumpPoolGuard<'_, MArc, S>) -> usize {
    g.stats().small_to_big().next().map_or(0, |c| c.chunk_start().addr().get())
}

fn pause(rng: &mut Rng) {
    match rng.below(6) {
        0 => std::thread::yield_now(),
        1 => {
            for _ in 0..rng.range(1, 200) {
                std::hint::spin_loop();
            }
        }
        2 if !cfg!(miri) => std::thread::sleep(std::time::Duration::from_micros(rng.range(1, 120) as u64)),
        _ => {}
    }
}

fn worker<S: BumpAllocatorSettings + 'static>(pool: &BumpPool<MArc, S>, sh: &Shared, t: usize, seed: u64, cycles: usize, barrier: &Barrier, faulty: bool)
where
    MArc: BaseAllocator<S::GuaranteedAllocated>,
{
    let mut rng = Rng::new(mix(&[seed, t as u64, 0x9001]));
    for c in 0..cycles {
        pause(&mut rng);
        // peak: counted before the request, released after the guard is gone (upper bound of the true peak)
        let h = sh.held.fetch_add(1, SeqCst) + 1;
        sh.peak.fetch_max(h, SeqCst);
        sh.ev(t, Ev::Get);
        let how = rng.below(6);
        let r: Result<BumpPoolGuard<'_, MArc, S>, AllocError> = match how {
            0 => Ok(pool.get()),
            1 => pool.try_get(),
            2 => Ok(pool.get_with_size(*rng.pick(&[0usize, 512, 3000]))),
            3 => pool.try_get_with_size(*rng.pick(&[1usize, 700, 9000])),
            4 => Ok(pool.get_with_capacity(Layout::from_size_align(rng.range(1, 2000), 1 << rng.below(6)).unwrap())),
            _ => pool.try_get_with_capacity(Layout::from_size_align(rng.range(1, 2000), 1 << rng.below(6)).unwrap()),
        };
        let mut g = match r {
            Ok(g) => g,
            Err(_) => {
                if !faulty {
                    sh.viol("try_get_failed_without_refusal", format!("thread {t} cycle {c} method {how}"));
                }
                sh.held.fetch_sub(1, SeqCst);
                continue;
            }
        };
        let id = identity(&g);
        // registry: inserted after `get` returned, removed before the guard is dropped
        {
            let mut live = sh.live.lock().unwrap();
            if let Some(other) = live.insert(id, t) {
                sh.viol("two_live_guards_share_an_arena", format!("arena {id:#x}: threads {other} and {t}"));
            }
        }
        // removed before the guard is dropped, also when this thread unwinds (declared after `g`)
        struct Unregister<'a>(&'a Shared, usize);
        impl Drop for Unregister<'_> {
            fn drop(&mut self) {
                self.0.live.lock().unwrap_or_else(|e| e.into_inner()).remove(&self.1);
            }
        }
        let unregister = Unregister(sh, id);
        let fresh = sh.known_arenas.lock().unwrap().insert(id);
        sh.ev(t, Ev::Got(id, fresh));
        sh.seen_by.lock().unwrap().entry(id).or_default().insert(t);
        pause(&mut rng);
        // allocations: patterned blocks that must survive until the pool is reset or dropped
        for _ in 0..rng.range(0, 4) {
            let len = match rng.below(5) {
                0 => rng.range(600, 3000),
                _ => rng.range(1, 200),
            };
            let via_scope = rng.chance(1, 4);
            let b = if via_scope {
                // an inner scope is undone when it ends; what is allocated around it stays
                g.scoped(|s| {
                    let _ = s.alloc_slice_fill(rng.range(1, 300), 0xEEu8);
                });
                g.alloc_slice_fill(len, 0u8)
            } else {
                g.alloc_slice_fill(len, 0u8)
            };
            let seedp = rng.next() as u32;
            let pat = pattern(seedp, len);
            let ptr = bump_scope::BumpBox::into_raw(b).cast::<u8>().as_ptr();
            unsafe { std::ptr::copy_nonoverlapping(pat.as_ptr(), ptr, len) };
            sh.blocks.lock().unwrap().push(Blk { ptr, len, seed: seedp, arena: id, thread: t });
            pause(&mut rng);
        }
        // sometimes verify what this arena holds so far (blocks written by other threads earlier)
        if rng.chance(1, 5) {
            let blocks = sh.blocks.lock().unwrap();
            for b in blocks.iter().filter(|b| b.arena == id) {
                let s = unsafe { std::slice::from_raw_parts(b.ptr as *const u8, b.len) };
                if s != &pattern(b.seed, b.len)[..] {
                    sh.viol("block_changed_before_pool_reset", format!("block of thread {} in arena {id:#x} read by thread {t}", b.thread));
                }
            }
        }
        if rng.chance(1, 12) {
            // hold the guard across a rendezvous so that other threads must create arenas
            barrier.wait();
            if !cfg!(miri) {
                std::thread::sleep(std::time::Duration::from_micros(300));
            } else {
                std::thread::yield_now();
            }
        }
        drop(unregister);
        sh.ev(t, Ev::Drop(id));
        drop(g);
        sh.held.fetch_sub(1, SeqCst);
    }
}

fn run<S: BumpAllocatorSettings + Send + Sync + 'static>(rep: &mut Report, run_i: u64, seed: u64, threads: usize, cycles: usize)
where
    MArc: BaseAllocator<S::GuaranteedAllocated>,
{
    let mut rng = Rng::new(mix(&[seed, run_i, 0x19]));
    let faulty = rng.chance(1, 4);
    let mut fail = FailPlan::default();
    if faulty {
        fail.fail_prob = 60;
    }
    let mon = Arc::new(Mutex::new(MonState::new(Policy::thick(), fail, seed)));
    let alloc = MArc(mon.clone());
    let cfg = format!("pool/{}{}/t{threads}/c{cycles}{}", if S::UP { "U" } else { "D" }, S::MIN_ALIGN, if faulty { "/faulty" } else { "" });
    rep.histories += 1;
    let mut pool: BumpPool<MArc, S> = BumpPool::new_in(alloc);
    let sh = Shared {
        live: Mutex::new(BTreeMap::new()),
        blocks: Mutex::new(Vec::new()),
        held: AtomicI64::new(0),
        peak: AtomicI64::new(0),
        seq: AtomicU64::new(0),
        log: Mutex::new(Vec::new()),
        viols: Mutex::new(Vec::new()),
        seen_by: Mutex::new(BTreeMap::new()),
        known_arenas: Mutex::new(BTreeSet::new()),
    };
    // the rendezvous barrier only ever needs two parties, so that nobody can wait forever
    let barrier = Barrier::new(1);
    let wseed = rng.next();
    std::thread::scope(|scope| {
        for t in 0..threads {
            let (pool, sh, barrier) = (&pool, &sh, &barrier);
            scope.spawn(move || {
                let r = std::panic::catch_unwind(std::panic::AssertUnwindSafe(|| worker::<S>(pool, sh, t, wseed, cycles, barrier, faulty)));
                if let Err(p) = r {
                    let faulty_panic = p.is::<vh::arena::AllocErrorMarker>();
                    if !(faulty && faulty_panic) {
                        sh.viol("worker_panicked", format!("thread {t}"));
                    }
                    // a panicking get leaves the held counter raised: harmless (upper bound)
                }
            });
        }
    });
    // all guards are gone
    let created = pool.bumps().len();
    let peak = sh.peak.load(SeqCst);
    if created as i64 > peak {
        sh.viol("more_arenas_created_than_peak_live_guards", format!("created {created} peak (upper bound) {peak}"));
    }
    if !sh.live.lock().unwrap().is_empty() {
        sh.viol("registry_not_empty_after_join", String::new());
    }
    // everything allocated through any guard is still intact (arenas have migrated between threads)
    let blocks = std::mem::take(&mut *sh.blocks.lock().unwrap());
    for b in &blocks {
        let s = unsafe { std::slice::from_raw_parts(b.ptr as *const u8, b.len) };
        if s != &pattern(b.seed, b.len)[..] {
            sh.viol("block_changed_before_pool_reset", format!("block of thread {} in arena {:#x} (final sweep)", b.thread, b.arena));
            break;
        }
    }
    let migrated = sh.seen_by.lock().unwrap().values().filter(|s| s.len() > 1).count();
    rep.add("arenas_seen_by_several_threads", migrated as u64);
    rep.add("arenas_created", created as u64);
    rep.add("blocks_verified", blocks.len() as u64);
    // pool-wide operations behave like the single-arena ones
    mon.lock().unwrap().fail = FailPlan::default();
    match rng.below(3) {
        0 => {
            let before_deallocs = mon.lock().unwrap().dealloc_calls;
            pool.reset_to_start();
            for (i, b) in pool.bumps().iter().enumerate() {
                let st = b.stats();
                let first = st.small_to_big().next();
                let at_start = match (st.current_chunk(), first) {
                    (Some(c), Some(f)) => c.chunk_start() == f.chunk_start() && c.allocated() == 0,
                    (None, None) => true,
                    _ => false,
                };
                if st.allocated() != 0 || !at_start {
                    sh.viol("pool_reset_to_start_left_an_arena_unrewound", format!("arena {i}: allocated {}", st.allocated()));
                }
            }
            if mon.lock().unwrap().dealloc_calls != before_deallocs {
                sh.viol("pool_reset_to_start_released_chunks", String::new());
            }
            rep.count("pool_reset_to_start");
        }
        1 => {
            let largest: Vec<usize> = pool.bumps().iter().map(|b| b.stats().big_to_small().next().map_or(0, |c| c.chunk_start().addr().get())).collect();
            pool.reset();
            for (i, b) in pool.bumps().iter().enumerate() {
                let st = b.stats();
                if st.count() > 1 || st.allocated() != 0 || st.small_to_big().next().map_or(0, |c| c.chunk_start().addr().get()) != largest[i] {
                    sh.viol("pool_reset_left_an_arena_unreset", format!("arena {i}: count {} allocated {}", st.count(), st.allocated()));
                }
            }
            let live = mon.lock().unwrap().live_count;
            let with_chunk = pool.bumps().iter().filter(|b| b.stats().count() > 0).count();
            if live != with_chunk {
                sh.viol("pool_reset_left_wrong_number_of_grants", format!("{live} live grants for {with_chunk} arenas"));
            }
            rep.count("pool_reset");
        }
        _ => rep.count("pool_drop_only"),
    }
    drop(pool);
    {
        let mut m = mon.lock().unwrap();
        m.check_quiescent();
        if m.live_count != 0 {
            let n = m.live_count;
            drop(m);
            sh.viol("pool_drop_leaked_chunks", format!("{n} grants live after the pool was dropped"));
        } else {
            let probs: Vec<_> = m.problems.drain(..).collect();
            drop(m);
            for (s, d) in probs {
                sh.viol(&s, d);
            }
        }
    }
    // distinct get/drop interleavings actually observed
    let log = sh.log.lock().unwrap();
    let mut h = 0u64;
    let mut reused = 0u64;
    for (_, t, e) in log.iter() {
        let code = match e {
            Ev::Get => 1,
            Ev::Got(_, fresh) => {
                if !*fresh {
                    reused += 1;
                }
                2
            }
            Ev::Drop(_) => 3,
        };
        h = mix(&[h, *t as u64, code]);
    }
    rep.add("events", log.len() as u64);
    rep.add("get_reused", reused);
    rep.ops += log.len() as u64;
    rep.nontrivial.insert(h);
    rep.states.insert(mix(&[hash_str(&cfg), created as u64, peak as u64]));
    if rep.samples.len() < 2 {
        let s: Vec<String> = log.iter().take(30).map(|(s, t, e)| format!("{s}:t{t}:{e:?}")).collect();
        rep.samples.push(format!("[{cfg} run {run_i}] created {created} peak<= {peak} blocks {} :: {}", blocks.len(), s.join(" ")));
    }
    drop(log);
    for (sig, d) in sh.viols.lock().unwrap().drain(..) {
        rep.viol(Viol { prop: "C19", sig, detail: d, config: cfg.clone(), hist: run_i, op: 0, opdesc: "pool run".into() });
    }
}

fn main() {
    let a = Args::parse();
    if a.flag("noop") {
        return;
    }
    vh::arena::install_hooks();
    let seed = a.u64("seed", 1);
    let shard = a.u64("shard", 0);
    let nshards = a.u64("nshards", 1);
    let runs = a.u64("histories", 20);
    let mut rep = Report::new(false);
    for i in 0..runs {
        let r = shard + i * nshards;
        let mut rng = Rng::new(mix(&[seed, r, 0x7]));
        let threads = a.usize("threads", if cfg!(miri) { rng.range(2, 3) } else { rng.range(2, 16) });
        let cycles = a.usize("cycles", if cfg!(miri) { rng.range(3, 6) } else { rng.range(50, 500) });
        if r % 2 == 0 {
            run::<BumpSettings>(&mut rep, r, seed, threads, cycles);
        } else {
            run::<BumpSettings<8, false>>(&mut rep, r, seed, threads, cycles);
        }
    }
    rep.emit(&format!(",\"bin\":\"pool\",\"seed\":{seed},\"shard\":{shard}"));
}
