//! C17: two arenas in identical states execute the same request through two different entry
//! points; block offset, chunk index, length, `allocated()` and the value must agree.
//!
//! lockstep --seed S --shard K --nshards N --histories H [--ops 120]

use bump_scope::alloc::{AllocError, Allocator};
use bump_scope::settings::{BumpAllocatorSettings, BumpSettings};
use bump_scope::traits::*;
use bump_scope::{BaseAllocator, Bump, BumpBox, BumpScope, BumpVec, MutBumpVec, MutBumpVecRev, WithoutDealloc, WithoutShrink};
use std::alloc::Layout;
use std::cell::RefCell;
use std::ffi::CStr;
use std::ptr::NonNull;
use std::rc::Rc;
use vh::arena::{PanicKind, classify, guarded, install_hooks, msg_sig};
use vh::monalloc::{FailPlan, MRc, MonHandle, MonState, Overgrant, Place, Policy, Shared};
use vh::out::{Args, Report, Viol};
use vh::rng::{Rng, hash_str, mix};
use vh::snap::{Snap, snap};

/// (offset of the block in its chunk, chunk index, length, value bytes)
#[derive(Debug, PartialEq, Eq, Clone)]
struct Res {
    chunk: usize,
    offset: usize,
    len: usize,
    bytes: Vec<u8>,
}

#[derive(Debug, PartialEq, Eq, Clone)]
enum Out {
    Block(Res),
    Unit,
    Err,
    Panic(String),
}

fn locate(s: &Snap, addr: usize, len: usize) -> (usize, usize) {
    match s.typed.fwd.iter().position(|c| addr >= c.content_start && addr + len <= c.content_end) {
        Some(i) => (i, addr - s.typed.fwd[i].content_start),
        None => (usize::MAX, addr % 4096),
    }
}

struct Side<A: MonHandle + BaseAllocator<S::GuaranteedAllocated>, S: BumpAllocatorSettings> {
    mon: Shared,
    bump: Bump<A, S>,
}

fn block<A, S>(side: &Side<A, S>, p: NonNull<u8>, len: usize) -> Out
where
    A: MonHandle + BaseAllocator<S::GuaranteedAllocated>,
    S: BumpAllocatorSettings,
{
    let s = snap(side.bump.stats(), side.bump.any_stats());
    let (chunk, offset) = if len == 0 { (0, 0) } else { locate(&s, p.addr().get(), len) };
    let bytes = unsafe { std::slice::from_raw_parts(p.as_ptr() as *const u8, len) }.to_vec();
    Out::Block(Res { chunk, offset, len, bytes })
}

fn out_of<A, S, T>(side: &Side<A, S>, r: Result<Result<T, AllocError>, Box<dyn std::any::Any + Send>>, conv: impl FnOnce(T) -> (NonNull<u8>, usize)) -> Out
where
    A: MonHandle + BaseAllocator<S::GuaranteedAllocated>,
    S: BumpAllocatorSettings,
{
    match r {
        Ok(Ok(t)) => {
            let (p, len) = conv(t);
            block(side, p, len)
        }
        Ok(Err(_)) => Out::Err,
        Err(p) => match classify(&p) {
            PanicKind::Msg(m) => Out::Panic(msg_sig(&m)),
            k => Out::Panic(format!("{k:?}")),
        },
    }
}

pub const TYPED_EPS: [&str; 16] = [
    "Bump::m", "BumpScope::m", "Trait(BumpScope)::m", "Trait(&Bump)::m", "Trait(&BumpScope)::m", "Trait(WoD<&BumpScope>)::m", "Trait(WoS<&BumpScope>)::m", "Trait(dyn CoreScope)::m",
    "Bump::try_m", "BumpScope::try_m", "Trait(BumpScope)::try_m", "Trait(&Bump)::try_m", "Trait(&BumpScope)::try_m", "Trait(WoD<&BumpScope>)::try_m", "Trait(WoS<&BumpScope>)::try_m", "Trait(dyn CoreScope)::try_m",
];
pub const MUT_EPS: [&str; 16] = [
    "Bump::m", "BumpScope::m", "Trait(BumpScope)::m", "Trait(&mut Bump)::m", "Trait(&mut BumpScope)::m", "Trait(WoD<&mut BumpScope>)::m", "Trait(WoS<&mut BumpScope>)::m", "Trait(dyn MutCoreScope)::m",
    "Bump::try_m", "BumpScope::try_m", "Trait(BumpScope)::try_m", "Trait(&mut Bump)::try_m", "Trait(&mut BumpScope)::try_m", "Trait(WoD<&mut BumpScope>)::try_m", "Trait(WoS<&mut BumpScope>)::try_m",
    "Trait(dyn MutCoreScope)::try_m",
];

/// calls method `$m`/`$tm` through entry point `$ep` on `$b: &Bump`
macro_rules! typed_t {
    ($tr:path, $ep:expr, $b:expr, $m:ident, $tm:ident, ($($a:expr),*)) => {{
        let b = $b;
        match $ep {
            0 => Ok(b.$m($($a),*)),
            1 => Ok(b.as_scope().$m($($a),*)),
            2 => Ok(<_ as $tr>::$m(b.as_scope(), $($a),*)),
            3 => Ok(<_ as $tr>::$m(&b, $($a),*)),
            4 => Ok(<_ as $tr>::$m(&b.as_scope(), $($a),*)),
            5 => Ok(<_ as $tr>::$m(&WithoutDealloc(b.as_scope()), $($a),*)),
            6 => Ok(<_ as $tr>::$m(&WithoutShrink(b.as_scope()), $($a),*)),
            7 => {
                let d: &dyn BumpAllocatorCoreScope = b.as_scope();
                Ok(<_ as $tr>::$m(d, $($a),*))
            }
            8 => b.$tm($($a),*),
            9 => b.as_scope().$tm($($a),*),
            10 => <_ as $tr>::$tm(b.as_scope(), $($a),*),
            11 => <_ as $tr>::$tm(&b, $($a),*),
            12 => <_ as $tr>::$tm(&b.as_scope(), $($a),*),
            13 => <_ as $tr>::$tm(&WithoutDealloc(b.as_scope()), $($a),*),
            14 => <_ as $tr>::$tm(&WithoutShrink(b.as_scope()), $($a),*),
            _ => {
                let d: &dyn BumpAllocatorCoreScope = b.as_scope();
                <_ as $tr>::$tm(d, $($a),*)
            }
        }
    }};
}

macro_rules! typed {
    ($ep:expr, $b:expr, $m:ident, $tm:ident, ($($a:expr),*)) => {
        typed_t!(BumpAllocatorTypedScope, $ep, $b, $m, $tm, ($($a),*))
    };
}

macro_rules! typed_mut {
    ($ep:expr, $b:expr, $m:ident, $tm:ident, ($($a:expr),*)) => {{
        let b: &mut Bump<A, S> = $b;
        match $ep {
            0 => Ok(b.$m($($a),*)),
            1 => Ok(b.as_mut_scope().$m($($a),*)),
            2 => Ok(MutBumpAllocatorTypedScope::$m(b.as_mut_scope(), $($a),*)),
            3 => Ok(MutBumpAllocatorTypedScope::$m(&mut &mut *b, $($a),*)),
            4 => Ok(MutBumpAllocatorTypedScope::$m(&mut b.as_mut_scope(), $($a),*)),
            5 => Ok(MutBumpAllocatorTypedScope::$m(&mut WithoutDealloc(b.as_mut_scope()), $($a),*)),
            6 => Ok(MutBumpAllocatorTypedScope::$m(&mut WithoutShrink(b.as_mut_scope()), $($a),*)),
            7 => {
                let d: &mut dyn MutBumpAllocatorCoreScope = b.as_mut_scope();
                Ok(MutBumpAllocatorTypedScope::$m(d, $($a),*))
            }
            8 => b.$tm($($a),*),
            9 => b.as_mut_scope().$tm($($a),*),
            10 => MutBumpAllocatorTypedScope::$tm(b.as_mut_scope(), $($a),*),
            11 => MutBumpAllocatorTypedScope::$tm(&mut &mut *b, $($a),*),
            12 => MutBumpAllocatorTypedScope::$tm(&mut b.as_mut_scope(), $($a),*),
            13 => MutBumpAllocatorTypedScope::$tm(&mut WithoutDealloc(b.as_mut_scope()), $($a),*),
            14 => MutBumpAllocatorTypedScope::$tm(&mut WithoutShrink(b.as_mut_scope()), $($a),*),
            _ => {
                let d: &mut dyn MutBumpAllocatorCoreScope = b.as_mut_scope();
                MutBumpAllocatorTypedScope::$tm(d, $($a),*)
            }
        }
    }};
}

fn box_parts<T>(b: BumpBox<'_, T>) -> (NonNull<u8>, usize) {
    (BumpBox::into_raw(b).cast(), size_of::<T>())
}
fn slice_parts<T>(b: BumpBox<'_, [T]>) -> (NonNull<u8>, usize) {
    let n = b.len() * size_of::<T>();
    (BumpBox::into_raw(b).cast(), n)
}
fn str_parts(b: BumpBox<'_, str>) -> (NonNull<u8>, usize) {
    let n = b.len();
    (BumpBox::into_raw(b).cast(), n)
}
fn cstr_parts(c: &CStr) -> (NonNull<u8>, usize) {
    let b = c.to_bytes_with_nul();
    (NonNull::new(b.as_ptr() as *mut u8).unwrap(), b.len())
}

#[derive(Clone, Debug)]
enum Req {
    AllocU32(u32),
    AllocBig(u64),
    AllocWith(u64),
    AllocDefault,
    SliceCopyU8(Vec<u8>),
    SliceCopyU32(Vec<u32>),
    SliceClone(Vec<u16>),
    SliceFill(usize, u8),
    SliceFillWith(usize, u32),
    SliceMove(Vec<u32>),
    Str(String),
    Fmt(String, u64),
    CStr(Vec<u8>),
    CStrFromStr(String),
    CStrFmt(String, u64),
    Iter(Vec<u32>),
    IterExact(Vec<u16>),
    UninitSlice(usize),
    Reserve(usize),
    IterMut(Vec<u32>),
    IterMutRev(Vec<u32>),
    FmtMut(String, u64),
    CStrFmtMut(String, u64),
    Raw(Layout, bool),
    TypedLayout(Layout),
    /// BumpVec: with_capacity, extend, optional shrink_to_fit, into_boxed_slice - over every allocator handle
    VecSession(Vec<u32>, usize, bool),
    /// MutBumpVec / MutBumpVecRev over every exclusive allocator handle
    MutVecSession(Vec<u32>, usize, bool, bool),
    /// checkpoint, some allocations, reset_to, one allocation - through every `BumpAllocatorCore` implementor
    CheckpointReset(Vec<usize>),
    /// alloc_try_with(_mut) and the try_ twins, inherent on Bump and on BumpScope
    TryWith(bool, u64),
    /// allocate, then grow / grow_zeroed / shrink / deallocate-and-allocate-again, all through the `Allocator`
    /// implementation of one handle
    RawSession(Layout, Layout, u8),
    /// prepare_allocation(_rev) + allocate_prepared(_rev) through every `BumpAllocatorCore` implementor
    PrepareCommit(Layout, usize, bool),
}

#[derive(Clone, Copy, PartialEq, Eq, Debug)]
struct BigT([u64; 20]);

fn apply<A, S>(side: &mut Side<A, S>, req: &Req, ep: usize) -> (Out, String)
where
    A: MonHandle + BaseAllocator<S::GuaranteedAllocated>,
    S: BumpAllocatorSettings,
{
    let b = &side.bump;
    match req.clone() {
        Req::AllocU32(v) => (out_of(side, guarded(|| typed!(ep, b, alloc, try_alloc, (v))), box_parts), TYPED_EPS[ep].into()),
        Req::AllocBig(x) => {
            let v = BigT([x; 20]);
            (out_of(side, guarded(|| typed!(ep, b, alloc, try_alloc, (v))), box_parts), TYPED_EPS[ep].into())
        }
        Req::AllocWith(x) => (out_of(side, guarded(|| typed!(ep, b, alloc_with, try_alloc_with, (|| x))), box_parts), TYPED_EPS[ep].into()),
        Req::AllocDefault => (out_of(side, guarded(|| typed!(ep, b, alloc_default, try_alloc_default, ())), box_parts::<u64>), TYPED_EPS[ep].into()),
        Req::SliceCopyU8(v) => (out_of(side, guarded(|| typed!(ep, b, alloc_slice_copy, try_alloc_slice_copy, (&v))), slice_parts), TYPED_EPS[ep].into()),
        Req::SliceCopyU32(v) => (out_of(side, guarded(|| typed!(ep, b, alloc_slice_copy, try_alloc_slice_copy, (&v))), slice_parts), TYPED_EPS[ep].into()),
        Req::SliceClone(v) => (out_of(side, guarded(|| typed!(ep, b, alloc_slice_clone, try_alloc_slice_clone, (&v))), slice_parts), TYPED_EPS[ep].into()),
        Req::SliceFill(n, x) => (out_of(side, guarded(|| typed!(ep, b, alloc_slice_fill, try_alloc_slice_fill, (n, x))), slice_parts), TYPED_EPS[ep].into()),
        Req::SliceFillWith(n, x) => {
            let r = guarded(|| {
                let mut i = x;
                typed!(ep, b, alloc_slice_fill_with, try_alloc_slice_fill_with, (n, || {
                    i = i.wrapping_mul(31).wrapping_add(7);
                    i
                }))
            });
            (out_of(side, r, slice_parts), TYPED_EPS[ep].into())
        }
        Req::SliceMove(v) => (out_of(side, guarded(|| typed!(ep, b, alloc_slice_move, try_alloc_slice_move, (v.clone()))), slice_parts), TYPED_EPS[ep].into()),
        Req::Str(s) => (out_of(side, guarded(|| typed!(ep, b, alloc_str, try_alloc_str, (&s))), str_parts), TYPED_EPS[ep].into()),
        Req::Fmt(s, x) => (out_of(side, guarded(|| typed!(ep, b, alloc_fmt, try_alloc_fmt, (format_args!("{s}:{x}:{s}")))), str_parts), TYPED_EPS[ep].into()),
        Req::CStr(v) => {
            let c = std::ffi::CString::new(v).unwrap();
            (out_of(side, guarded(|| typed!(ep, b, alloc_cstr, try_alloc_cstr, (&c))), cstr_parts), TYPED_EPS[ep].into())
        }
        Req::CStrFromStr(s) => (out_of(side, guarded(|| typed!(ep, b, alloc_cstr_from_str, try_alloc_cstr_from_str, (&s))), cstr_parts), TYPED_EPS[ep].into()),
        Req::CStrFmt(s, x) => (out_of(side, guarded(|| typed!(ep, b, alloc_cstr_fmt, try_alloc_cstr_fmt, (format_args!("{s}{x}\0{s}")))), cstr_parts), TYPED_EPS[ep].into()),
        Req::Iter(v) => (out_of(side, guarded(|| typed!(ep, b, alloc_iter, try_alloc_iter, (v.clone()))), slice_parts), TYPED_EPS[ep].into()),
        Req::IterExact(v) => (out_of(side, guarded(|| typed!(ep, b, alloc_iter_exact, try_alloc_iter_exact, (v.clone()))), slice_parts), TYPED_EPS[ep].into()),
        Req::UninitSlice(n) => {
            let r = guarded(|| typed!(ep, b, alloc_uninit_slice, try_alloc_uninit_slice, (n)).map(|u: BumpBox<[std::mem::MaybeUninit<u32>]>| u.init_fill(0xABCD_u32)));
            (out_of(side, r, slice_parts), TYPED_EPS[ep].into())
        }
        Req::Reserve(n) => {
            let r = guarded(|| typed_t!(BumpAllocatorTyped, ep, b, reserve, try_reserve, (n)));
            let o = match r {
                Ok(Ok(())) => Out::Unit,
                Ok(Err(_)) => Out::Err,
                Err(p) => Out::Panic(format!("{:?}", classify(&p))),
            };
            (o, TYPED_EPS[ep].into())
        }
        Req::IterMut(v) => {
            let bm = &mut side.bump;
            let r = guarded(|| typed_mut!(ep % 16, bm, alloc_iter_mut, try_alloc_iter_mut, (v.clone())).map(slice_parts));
            (out_of(side, r, |x| x), MUT_EPS[ep % 16].into())
        }
        Req::IterMutRev(v) => {
            let bm = &mut side.bump;
            let r = guarded(|| typed_mut!(ep % 16, bm, alloc_iter_mut_rev, try_alloc_iter_mut_rev, (v.clone())).map(slice_parts));
            (out_of(side, r, |x| x), MUT_EPS[ep % 16].into())
        }
        Req::FmtMut(s, x) => {
            let bm = &mut side.bump;
            let r = guarded(|| typed_mut!(ep % 16, bm, alloc_fmt_mut, try_alloc_fmt_mut, (format_args!("{s}/{x}/{s}"))).map(str_parts));
            (out_of(side, r, |x| x), MUT_EPS[ep % 16].into())
        }
        Req::CStrFmtMut(s, x) => {
            let bm = &mut side.bump;
            let r = guarded(|| typed_mut!(ep % 16, bm, alloc_cstr_fmt_mut, try_alloc_cstr_fmt_mut, (format_args!("{s}{x}\0{s}"))).map(cstr_parts));
            (out_of(side, r, |x| x), MUT_EPS[ep % 16].into())
        }
        Req::Raw(l, zero) => {
            // the allocator interface through every handle
            let names = ["Bump", "&Bump", "BumpScope", "&BumpScope", "&mut BumpScope", "WoD", "WoS", "dyn Core", "&mut dyn MutCore", "WoD(WoS)"];
            let k = ep % names.len();
            let r = guarded(|| {
                let f = |a: &dyn Allocator| if zero { a.allocate_zeroed(l) } else { a.allocate(l) };
                match k {
                    0 => f(&side.bump),
                    1 => f(&&side.bump),
                    2 => f(side.bump.as_scope()),
                    3 => f(&side.bump.as_scope()),
                    4 => f(&side.bump.as_mut_scope()),
                    5 => f(&WithoutDealloc(side.bump.as_scope())),
                    6 => f(&WithoutShrink(side.bump.as_scope())),
                    7 => {
                        let d: &dyn BumpAllocatorCore = side.bump.as_scope();
                        f(d)
                    }
                    8 => {
                        let d: &mut dyn MutBumpAllocatorCore = side.bump.as_mut_scope();
                        f(&d)
                    }
                    _ => f(&WithoutDealloc(WithoutShrink(&side.bump))),
                }
            });
            let o = match r {
                Ok(Ok(p)) => {
                    unsafe { p.cast::<u8>().write_bytes(if zero { 0 } else { 0x5C }, 0) };
                    if !zero {
                        // contents of a fresh block are unspecified: make them equal before comparing
                        unsafe { p.cast::<u8>().as_ptr().write_bytes(0x5C, l.size()) };
                    }
                    block(side, p.cast(), l.size())
                }
                Ok(Err(_)) => Out::Err,
                Err(p) => Out::Panic(format!("{:?}", classify(&p))),
            };
            (o, format!("Allocator::allocate via {}", names[k]))
        }
        Req::TypedLayout(l) => {
            let names = ["allocate_layout(BumpScope)", "try_allocate_layout(BumpScope)", "allocate_layout(&Bump)", "allocate_layout(dyn)", "try_allocate_layout(dyn)", "allocate(Layout) via BumpScope", "allocate_layout(WoD)", "allocate_slice<u8>(BumpScope)"];
            let k = ep % names.len();
            let sc = side.bump.as_scope();
            let r = guarded(|| match k {
                0 => Ok(sc.allocate_layout(l)),
                1 => sc.try_allocate_layout(l),
                2 => Ok((&side.bump).allocate_layout(l)),
                3 => {
                    let d: &dyn BumpAllocatorCore = sc;
                    Ok(d.allocate_layout(l))
                }
                4 => {
                    let d: &dyn BumpAllocatorCore = sc;
                    d.try_allocate_layout(l)
                }
                5 => sc.allocate(l).map(|p| p.cast()),
                6 => Ok(WithoutDealloc(sc).allocate_layout(l)),
                _ => {
                    if l.align() == 1 {
                        Ok(sc.allocate_slice::<u8>(l.size()))
                    } else {
                        Ok(sc.allocate_layout(l))
                    }
                }
            });
            let o = match r {
                Ok(Ok(p)) => {
                    unsafe { p.as_ptr().write_bytes(0x5C, l.size()) };
                    block(side, p, l.size())
                }
                Ok(Err(_)) => Out::Err,
                Err(p) => Out::Panic(format!("{:?}", classify(&p))),
            };
            (o, names[k].into())
        }
        Req::VecSession(data, cap, shrink) => {
            let names = [
                "BumpVec<&Bump>", "BumpVec<&BumpScope>", "BumpVec<WoD<&BumpScope>>", "BumpVec<&dyn CoreScope>", "try BumpVec<&Bump>", "try BumpVec<&BumpScope>", "try BumpVec<WoD<&BumpScope>>",
                "try BumpVec<&dyn CoreScope>",
            ];
            let k = ep % 8;
            let try_ = k >= 4;
            macro_rules! session {
                ($alloc:expr) => {{
                    let alloc = $alloc;
                    (|| -> Result<(NonNull<u8>, usize), AllocError> {
                        let mut v = if try_ { BumpVec::try_with_capacity_in(cap, alloc)? } else { BumpVec::with_capacity_in(cap, alloc) };
                        if try_ {
                            v.try_extend_from_slice_copy(&data)?;
                        } else {
                            v.extend_from_slice_copy(&data);
                        }
                        if shrink {
                            v.shrink_to_fit();
                        }
                        Ok(slice_parts(v.into_boxed_slice()))
                    })()
                }};
            }
            let sc = side.bump.as_scope();
            let r = guarded(|| match k % 4 {
                0 => session!(&side.bump),
                1 => session!(sc),
                2 => session!(WithoutDealloc(sc)),
                _ => {
                    let d: &dyn BumpAllocatorCoreScope = sc;
                    session!(d)
                }
            });
            (out_of(side, r, |x| x), names[k].into())
        }
        Req::MutVecSession(raw, cap, rev, wide) => {
            // narrow elements (size 3, align 1: sizes that do not divide the free space) or wide ones (u32: alignment padding)
            let data3: Vec<[u8; 3]> = raw.iter().map(|i| [*i as u8, (*i >> 8) as u8, 0x33]).collect();
            let data4: Vec<u32> = raw.clone();
            let names = ["&mut Bump", "&mut BumpScope", "WoD<&mut BumpScope>", "WoS<&mut BumpScope>", "&mut dyn MutCoreScope"];
            let k = ep % 10;
            let try_ = k >= 5;
            macro_rules! session {
                ($T:ident, $alloc:expr, $data:ident) => {{
                    let alloc = $alloc;
                    (|| -> Result<(NonNull<u8>, usize), AllocError> {
                        let mut v = if try_ { $T::try_with_capacity_in(cap, alloc)? } else { $T::with_capacity_in(cap, alloc) };
                        for x in &$data {
                            if try_ {
                                v.try_push(*x)?;
                            } else {
                                v.push(*x);
                            }
                        }
                        Ok(slice_parts(v.into_boxed_slice()))
                    })()
                }};
            }
            macro_rules! both {
                ($alloc:expr) => {
                    match (rev, wide) {
                        (true, true) => session!(MutBumpVecRev, $alloc, data4),
                        (true, false) => session!(MutBumpVecRev, $alloc, data3),
                        (false, true) => session!(MutBumpVec, $alloc, data4),
                        (false, false) => session!(MutBumpVec, $alloc, data3),
                    }
                };
            }
            let bm = &mut side.bump;
            let r = guarded(|| match k % 5 {
                0 => both!(&mut *bm),
                1 => both!(bm.as_mut_scope()),
                2 => both!(WithoutDealloc(bm.as_mut_scope())),
                3 => both!(WithoutShrink(bm.as_mut_scope())),
                _ => both!({
                    let d: &mut dyn MutBumpAllocatorCoreScope = bm.as_mut_scope();
                    d
                }),
            });
            (out_of(side, r, |x| x), format!("{}{}<{}>", if try_ { "try " } else { "" }, if rev { "MutBumpVecRev" } else { "MutBumpVec" }, names[k % 5]) + if wide { " of u32" } else { " of [u8;3]" })
        }
        Req::CheckpointReset(sizes) => {
            let names = ["Bump", "&Bump", "BumpScope", "&BumpScope", "WoD<&BumpScope>", "WoS<&BumpScope>", "dyn Core"];
            let k = ep % names.len();
            fn run<B: BumpAllocatorCore + ?Sized>(b: &B, sizes: &[usize]) -> Result<NonNull<u8>, AllocError> {
                let cp = b.checkpoint();
                for s in sizes {
                    b.allocate(Layout::from_size_align(*s, 1).unwrap())?;
                }
                unsafe { b.reset_to(cp) };
                b.allocate(Layout::new::<u64>()).map(|p| p.cast())
            }
            let sc = side.bump.as_scope();
            let r = guarded(|| match k {
                0 => run(&side.bump, &sizes),
                1 => run(&&side.bump, &sizes),
                2 => run(sc, &sizes),
                3 => run(&sc, &sizes),
                4 => run(&WithoutDealloc(sc), &sizes),
                5 => run(&WithoutShrink(sc), &sizes),
                _ => {
                    let d: &dyn BumpAllocatorCore = sc;
                    run(d, &sizes)
                }
            });
            let o = match r {
                Ok(Ok(p)) => {
                    unsafe { p.as_ptr().write_bytes(0x5C, 8) };
                    block(side, p, 8)
                }
                Ok(Err(_)) => Out::Err,
                Err(p) => Out::Panic(format!("{:?}", classify(&p))),
            };
            (o, format!("checkpoint/reset_to via {}", names[k]))
        }
        Req::PrepareCommit(l, used, rev) => {
            let names = ["Bump", "&Bump", "BumpScope", "&BumpScope", "WoD<&BumpScope>", "WoS<&BumpScope>", "dyn Core"];
            let k = ep % names.len();
            fn run<B: BumpAllocatorCore + ?Sized>(b: &B, l: Layout, used: usize, rev: bool) -> Result<NonNull<u8>, AllocError> {
                let claimed = b.is_claimed();
                assert!(!claimed, "is_claimed() of an unclaimed arena");
                let commit = Layout::from_size_align(used, l.align()).unwrap();
                if rev {
                    let range = b.prepare_allocation_rev(l)?;
                    Ok(unsafe { b.allocate_prepared_rev(commit, range) })
                } else {
                    let range = b.prepare_allocation(l)?;
                    Ok(unsafe { b.allocate_prepared(commit, range) })
                }
            }
            let sc = side.bump.as_scope();
            let r = guarded(|| match k {
                0 => run(&side.bump, l, used, rev),
                1 => run(&&side.bump, l, used, rev),
                2 => run(sc, l, used, rev),
                3 => run(&sc, l, used, rev),
                4 => run(&WithoutDealloc(sc), l, used, rev),
                5 => run(&WithoutShrink(sc), l, used, rev),
                _ => {
                    let d: &dyn BumpAllocatorCore = sc;
                    run(d, l, used, rev)
                }
            });
            let o = match r {
                Ok(Ok(p)) => {
                    unsafe { p.as_ptr().write_bytes(0x5C, used) };
                    block(side, p, used)
                }
                Ok(Err(_)) => Out::Err,
                Err(p) => Out::Panic(format!("{:?}", classify(&p))),
            };
            (o, format!("prepare_allocation{0} + allocate_prepared{0} via {1}", if rev { "_rev" } else { "" }, names[k]))
        }
        Req::RawSession(l1, l2, kind) => {
            let names = ["Bump", "&Bump", "BumpScope", "&BumpScope", "&mut BumpScope", "dyn Core", "&mut dyn MutCore"];
            let k = ep % names.len();
            let r = guarded(|| match k {
                0 => raw_session(&side.bump, l1, l2, kind),
                1 => raw_session(&&side.bump, l1, l2, kind),
                2 => raw_session(side.bump.as_scope(), l1, l2, kind),
                3 => raw_session(&side.bump.as_scope(), l1, l2, kind),
                4 => raw_session(&side.bump.as_mut_scope(), l1, l2, kind),
                5 => {
                    let d: &dyn BumpAllocatorCore = side.bump.as_scope();
                    raw_session(&d, l1, l2, kind)
                }
                _ => {
                    let d: &mut dyn MutBumpAllocatorCore = side.bump.as_mut_scope();
                    raw_session(&d, l1, l2, kind)
                }
            });
            (out_of(side, r, |x| x), format!("{} via Allocator for {}", ["grow", "grow_zeroed", "shrink", "deallocate+allocate"][kind as usize % 4], names[k]))
        }
        Req::TryWith(ok, x) => {
            let names = [
                "Bump::alloc_try_with", "Bump::try_alloc_try_with", "BumpScope::alloc_try_with", "BumpScope::try_alloc_try_with", "Bump::alloc_try_with_mut", "Bump::try_alloc_try_with_mut",
                "BumpScope::alloc_try_with_mut", "BumpScope::try_alloc_try_with_mut",
            ];
            let k = ep % 8;
            let f = move || if ok { Ok([x; 3]) } else { Err(7u8) };
            let bm = &mut side.bump;
            let r: Result<Result<Result<(NonNull<u8>, usize), u8>, AllocError>, _> = guarded(|| match k {
                0 => Ok(bm.alloc_try_with(f).map(box_parts)),
                1 => bm.try_alloc_try_with(f).map(|r| r.map(box_parts)),
                2 => Ok(bm.as_scope().alloc_try_with(f).map(box_parts)),
                3 => bm.as_scope().try_alloc_try_with(f).map(|r| r.map(box_parts)),
                4 => Ok(bm.alloc_try_with_mut(f).map(box_parts)),
                5 => bm.try_alloc_try_with_mut(f).map(|r| r.map(box_parts)),
                6 => Ok(bm.as_mut_scope().alloc_try_with_mut(f).map(box_parts)),
                _ => bm.as_mut_scope().try_alloc_try_with_mut(f).map(|r| r.map(box_parts)),
            });
            let o = match r {
                Ok(Ok(Ok((p, n)))) => block(side, p, n),
                Ok(Ok(Err(_))) => Out::Unit,
                Ok(Err(_)) => Out::Err,
                Err(p) => Out::Panic(format!("{:?}", classify(&p))),
            };
            (o, names[k].into())
        }
    }
}

/// `Req::RawSession` through one `Allocator` implementor
fn raw_session(a: &dyn Allocator, l1: Layout, l2: Layout, kind: u8) -> Result<(NonNull<u8>, usize), AllocError> {
    let p = a.allocate(l1)?.cast::<u8>();
    unsafe { p.as_ptr().write_bytes(0x3D, l1.size()) };
    let (q, n) = unsafe {
        match kind {
            0 => (a.grow(p, l1, l2)?.cast::<u8>(), l2.size()),
            1 => (a.grow_zeroed(p, l1, l2)?.cast::<u8>(), l2.size()),
            2 => (a.shrink(p, l1, l2)?.cast::<u8>(), l2.size()),
            _ => {
                a.deallocate(p, l1);
                (a.allocate(l2)?.cast::<u8>(), l2.size())
            }
        }
    };
    // unspecified bytes (fresh block, grown tail) are made equal before the two sides are compared
    let keep = match kind {
        0 | 2 => l1.size().min(l2.size()),
        1 => l2.size(),
        _ => 0,
    };
    unsafe { q.as_ptr().add(keep).write_bytes(0x5C, n - keep) };
    Ok((q, n))
}

/// entry points that are only comparable within their group (the `_mut` forms place the value differently)
fn same_group(req: &Req, e1: usize, e2: usize) -> bool {
    match req {
        Req::TryWith(..) => (e1 % 8) / 4 == (e2 % 8) / 4,
        _ => true,
    }
}

fn gen_req(rng: &mut Rng, rem: usize) -> Req {
    let txt = |rng: &mut Rng| -> String {
        let al = ["a", "bc", "é", "€", "😀", "xyz0123"];
        (0..rng.range(0, 12)).map(|_| al[rng.below(al.len())]).collect()
    };
    let n_for = |rng: &mut Rng, esz: usize| -> usize {
        (match rng.below(5) {
            0 => 0,
            1 => rng.range(1, 16),
            2 => rem / esz,
            3 => rem / esz + 1,
            _ => rng.range(0, 400),
        })
        .min(6000)
    };
    match rng.below(37) {
        35 | 36 => {
            let align = 1usize << rng.below(5);
            let size = *rng.pick(&[0, 1, 13, 64, 200, rem / 2, rem, rem + 1, rem + 200]);
            let used = *rng.pick(&[0, size, size / 2, size.saturating_sub(1), size.min(7)]);
            Req::PrepareCommit(Layout::from_size_align(size, align).unwrap(), used, rng.bool())
        }
        32 | 33 | 34 => {
            let kind = rng.below(4) as u8;
            let a1 = 1usize << rng.below(6);
            let a2 = if rng.chance(3, 4) { a1 } else { 1usize << rng.below(6) };
            let s1 = *rng.pick(&[0, 1, 7, 16, 24, 100, rem / 2, rem.saturating_sub(8), rem]);
            let s2 = match kind {
                0 | 1 => s1 + *rng.pick(&[0, 1, 8, 33, rem / 2, rem, rem + 64]),
                2 => s1 - s1.min(*rng.pick(&[0, 1, 5, 16, s1 / 2, s1])),
                _ => *rng.pick(&[s1, s1 / 2, s1 + 8, 3]),
            };
            Req::RawSession(Layout::from_size_align(s1, a1).unwrap(), Layout::from_size_align(s2, a2).unwrap(), kind)
        }
        26 | 27 => {
            let n = n_for(rng, 4).min(400);
            let cap = *rng.pick(&[0, n, n / 2, n + 5]);
            Req::VecSession((0..n).map(|i| i as u32 * 7 + 3).collect(), cap, rng.bool())
        }
        28 | 29 => {
            let n = n_for(rng, 3).min(400);
            let cap = *rng.pick(&[0, n, n / 2, n + 5]);
            Req::MutVecSession((0..n).map(|i| i as u32 * 3 + 1).collect(), cap, rng.bool(), rng.bool())
        }
        30 => Req::CheckpointReset((0..rng.range(0, 4)).map(|_| *rng.pick(&[1, 8, 100, rem / 2, rem + 10, rem * 2 + 100])).collect()),
        31 => Req::TryWith(rng.chance(2, 3), rng.next()),
        0 => Req::AllocU32(rng.next() as u32),
        1 => Req::AllocBig(rng.next()),
        2 => Req::AllocWith(rng.next()),
        3 => Req::AllocDefault,
        4 => {
            let n = n_for(rng, 1);
            Req::SliceCopyU8((0..n).map(|i| (i * 7) as u8 | 1).collect())
        }
        5 => {
            let n = n_for(rng, 4);
            Req::SliceCopyU32((0..n).map(|i| i as u32 * 3 + 1).collect())
        }
        6 => {
            let n = n_for(rng, 2);
            Req::SliceClone((0..n).map(|i| i as u16 + 9).collect())
        }
        7 => Req::SliceFill(n_for(rng, 1), rng.next() as u8),
        8 => Req::SliceFillWith(n_for(rng, 4), rng.next() as u32),
        9 => {
            let n = n_for(rng, 4).min(300);
            Req::SliceMove((0..n).map(|i| i as u32 ^ 0x55).collect())
        }
        10 => Req::Str(txt(rng)),
        11 => Req::Fmt(txt(rng), rng.next() % 100000),
        12 => Req::CStr(txt(rng).into_bytes()),
        13 => {
            let mut s = txt(rng);
            if rng.bool() {
                s.push('\0');
                s.push_str("tail");
            }
            Req::CStrFromStr(s)
        }
        14 => Req::CStrFmt(txt(rng), rng.next() % 1000),
        15 => {
            let n = n_for(rng, 4).min(500);
            Req::Iter((0..n).map(|i| i as u32 * 5).collect())
        }
        16 => {
            let n = n_for(rng, 2).min(500);
            Req::IterExact((0..n).map(|i| i as u16 * 3).collect())
        }
        17 => Req::UninitSlice(n_for(rng, 4)),
        18 => Req::Reserve(match rng.below(4) {
            0 => 0,
            1 => rem,
            2 => rem + rng.range(1, 3000),
            _ => rng.range(0, 600),
        }),
        19 => {
            let n = n_for(rng, 4).min(500);
            Req::IterMut((0..n).map(|i| i as u32 + 100).collect())
        }
        20 => {
            let n = n_for(rng, 4).min(500);
            Req::IterMutRev((0..n).map(|i| i as u32 + 100).collect())
        }
        21 => Req::FmtMut(txt(rng), rng.next() % 100000),
        22 => Req::CStrFmtMut(txt(rng), rng.next() % 1000),
        23 | 24 => {
            let align = 1usize << rng.below(8);
            let size = match rng.below(4) {
                0 => rem,
                1 => rem + 1,
                2 => rng.range(0, 64),
                _ => rng.range(0, 900),
            };
            Req::Raw(Layout::from_size_align(size, align).unwrap(), rng.bool())
        }
        _ => {
            let align = 1usize << rng.below(6);
            Req::TypedLayout(Layout::from_size_align(rng.range(0, 700), align).unwrap())
        }
    }
}

/// a small deterministic extra allocation so that the chunks a left scope leaves behind are not empty
fn rng_free_len(sz: usize) -> usize {
    sz % 61 + 1
}

fn n_eps(req: &Req) -> usize {
    match req {
        Req::IterMut(_) | Req::IterMutRev(_) | Req::FmtMut(..) | Req::CStrFmtMut(..) => 16,
        Req::Raw(..) => 10,
        Req::VecSession(..) => 8,
        Req::MutVecSession(..) => 10,
        Req::CheckpointReset(_) => 7,
        Req::TryWith(..) => 8,
        Req::RawSession(..) => 7,
        Req::PrepareCommit(..) => 7,
        Req::TypedLayout(_) => 8,
        _ => 16,
    }
}

/// entry points whose wrapper changes the meaning of the operation are not compared for it
/// the entry point goes through WithoutDealloc / WithoutShrink (which legitimately behave differently once
/// requests fail and temporaries are given back)
fn is_wrapper(req: &Req, ep: usize) -> bool {
    match req {
        Req::Raw(..) => matches!(ep % 10, 5 | 6 | 9),
        Req::TypedLayout(_) => ep % 8 == 6,
        Req::VecSession(..) => ep % 4 == 2,
        Req::MutVecSession(..) => matches!(ep % 5, 2 | 3),
        Req::CheckpointReset(_) | Req::PrepareCommit(..) => matches!(ep % 7, 4 | 5),
        Req::TryWith(..) | Req::RawSession(..) => false,
        // (the trait-object `reserve` needs one contiguous block where the typed one may count the chunks it already
        // has: with a refusing base allocator the two legitimately differ, so it is left out like the wrappers)
        Req::Reserve(_) => matches!(ep % 16, 5 | 6 | 7 | 13 | 14 | 15),
        _ => matches!(ep % 16, 5 | 6 | 13 | 14),
    }
}

fn comparable(req: &Req, ep: usize) -> bool {
    match req {
        // temporary collections shrink at the end: WithoutShrink changes the resulting byte count
        Req::Fmt(..) | Req::CStrFmt(..) | Req::Iter(_) | Req::IterExact(_) => !matches!(ep, 6 | 14),
        _ => true,
    }
}

fn run_history<A, S>(rep: &mut Report, hist: u64, seed: u64, ops: usize, refuse: bool)
where
    A: MonHandle + BaseAllocator<S::GuaranteedAllocated>,
    S: BumpAllocatorSettings,
{
    let mut rng = Rng::new(seed);
    let cfg = format!("{}{}{}/{}", if S::UP { "U" } else { "D" }, S::MIN_ALIGN, if S::GUARANTEED_ALLOCATED { "G" } else { "g" }, A::NAME);
    rep.histories += 1;
    let mk = |rng_seed: u64| -> Option<Side<A, S>> {
        let mut pol = Policy::thick();
        pol.place = Place::Residue(0x240);
        pol.overgrant = Overgrant::Exact;
        pol.quarantine = false;
        let mon: Shared = Rc::new(RefCell::new(MonState::new(pol, FailPlan::default(), rng_seed)));
        vh::monalloc::set_current(Some(mon.clone()));
        // half of the not-guaranteed-allocated histories start without any chunk
        let bump = if !S::GUARANTEED_ALLOCATED && rng_seed % 2 == 1 { Bump::<A, S>::default() } else { Bump::<A, S>::try_new_in(A::with(&mon)).ok()? };
        Some(Side { mon, bump })
    };
    let (Some(mut a), Some(mut b)) = (mk(seed), mk(seed)) else { return };
    let mut trace: Vec<String> = Vec::new();
    let mut hit = 0u64;
    // `--refuse`: from some operation on the base allocator refuses everything (C07 through every entry point)
    let refuse_at = if refuse { Some(rng.range(3, ops.max(4))) } else { None };
    for opi in 0..ops {
        if Some(opi) == refuse_at {
            for side in [&a, &b] {
                let mut m = side.mon.borrow_mut();
                let k = m.alloc_calls;
                m.fail.fail_from = Some(k);
            }
            trace.push("base allocator refuses from here on".into());
            rep.count("state:base_refuses_everything");
        }
        // requests are sized relative to what is left in the current chunk; capped, so that chunk sizes stop doubling
        // at a few hundred KiB (the instrumented base allocator fills and verifies every byte it hands out)
        let rem = a.bump.stats().current_chunk().map_or(0, |c| c.remaining()).min(1 << 16);
        // occasionally both sides enter the same structural state
        match rng.below(14) {
            0 => {
                a.bump.reset_to_start();
                b.bump.reset_to_start();
                trace.push("reset_to_start".into());
            }
            1 => {
                a.bump.reset();
                b.bump.reset();
                trace.push("reset".into());
            }
            2 => {
                // a scope that outgrows the current chunk and is left: later chunks stay behind with stale contents,
                // the current chunk is in the middle of the chain
                let sizes: Vec<usize> = (0..rng.range(1, 3)).map(|_| rem + rng.range(1, 600)).collect();
                for side in [&mut a, &mut b] {
                    vh::monalloc::set_current(Some(side.mon.clone()));
                    side.bump.scoped(|s| {
                        for sz in &sizes {
                            let _ = s.try_allocate_layout(Layout::from_size_align(*sz, 1).unwrap());
                            let _ = s.try_alloc_slice_fill(rng_free_len(*sz), 0xA7u8);
                        }
                    });
                }
                rep.count("state:scope_left_later_chunks");
                trace.push(format!("scoped growth {sizes:?}"));
            }
            _ => {}
        }
        let req = gen_req(&mut rng, rem);
        let n = n_eps(&req);
        let (e1, e2) = loop {
            let e1 = rng.below(n);
            let e2 = rng.below(n);
            let refusing = refuse_at.is_some_and(|k| opi >= k);
            if e1 != e2 && comparable(&req, e1) && comparable(&req, e2) && same_group(&req, e1, e2) && !(refusing && (is_wrapper(&req, e1) || is_wrapper(&req, e2))) {
                break (e1, e2);
            }
        };
        rep.ops += 1;
        let before_a = a.bump.stats().allocated();
        vh::monalloc::set_current(Some(a.mon.clone()));
        let (oa, na) = apply(&mut a, &req, e1);
        vh::monalloc::set_current(Some(b.mon.clone()));
        let (ob, nb) = apply(&mut b, &req, e2);
        let rq = format!("{req:?}");
        let desc = format!("{} via [{na}] vs [{nb}]", rq.chars().take(60).collect::<String>());
        if rep.wal {
            eprintln!("op {opi} [{cfg}#{hist}] {desc}");
        }
        if trace.len() < 30 {
            trace.push(desc.clone());
        }
        let (sa, sb) = (a.bump.stats(), b.bump.stats());
        let ta = (sa.allocated(), sa.count(), sa.size(), sa.remaining());
        let tb = (sb.allocated(), sb.count(), sb.size(), sb.remaining());
        let kind = format!("{req:?}");
        let kind = kind.split(|c: char| c == '(' || c == ' ').next().unwrap_or("?").to_string();
        let mut bad = None;
        if refuse_at.is_some_and(|k| opi >= k) {
            // C07 through this entry point: a try_ method reports the refusal as an error, a failed request leaves the
            // allocated byte count where it was (wrappers that disable deallocation and multi-step requests excepted)
            for (o, n) in [(&oa, &na), (&ob, &nb)] {
                let is_try = n.contains("::try_") || n.starts_with("try_") || n.starts_with("try ");
                if let Out::Panic(p) = o {
                    if is_try && p.contains("AllocError") {
                        rep.viol(Viol { prop: "C07", sig: format!("try_method_panicked:{kind}"), detail: format!("{desc} :: [{n}] unwound with {p}"), config: cfg.clone(), hist, op: opi as u64, opdesc: desc.clone() });
                    }
                    rep.count("refusal_reported_by_unwinding");
                } else if let Out::Err = o {
                    rep.count("refusal_reported_as_error");
                }
            }
            // (whether a failed request gives its partial work back is not promised: a failed alloc_fmt may leave the
            // bytes of its temporary buffer allocated; observed, counted, not judged)
            if matches!(oa, Out::Err | Out::Panic(_)) && ta.0 != before_a {
                rep.count("failed_request_left_bytes_allocated");
            }
        }
        // panic-vs-try: a panicking method and its try twin differ only in how they report failure
        let norm = |o: &Out| match o {
            Out::Panic(_) => Out::Err,
            x => x.clone(),
        };
        if norm(&oa) != norm(&ob) {
            bad = Some((format!("result_differs:{kind}"), format!("{oa:?} vs {ob:?}")));
        } else if matches!(req, Req::Reserve(_)) && (na.contains("dyn") || nb.contains("dyn")) {
            // the trait-object implementation can only reserve one contiguous block, so it may acquire a
            // chunk of another size than the typed one; the statement promises the same allocated byte count
            if ta.0 != tb.0 {
                bad = Some((format!("arena_state_differs:{kind}"), format!("allocated() {} vs {}", ta.0, tb.0)));
            } else if ta != tb {
                // chunk structure diverged legitimately: lock-step cannot continue
                rep.count("reserve_dyn_structure_diverged");
                break;
            }
        } else if ta != tb {
            bad = Some((format!("arena_state_differs:{kind}"), format!("(allocated,count,size,remaining) {ta:?} vs {tb:?}")));
        }
        match (&oa, &ob) {
            (Out::Block(_), _) => hit |= 1,
            (Out::Unit, _) => hit |= 2,
            _ => hit |= 4,
        }
        rep.count(&format!("req:{kind}"));
        rep.count(&format!("pair:{}", if na.contains("dyn") || nb.contains("dyn") { "dyn" } else if na.contains("try") != nb.contains("try") { "try_vs_panicking" } else if na.contains("Trait") != nb.contains("Trait") { "inherent_vs_trait" } else { "other" }));
        if let Some((sig, d)) = bad {
            // once the base allocator refuses, a divergence between two plain entry points means one of them mishandles the failure
            let refusing = refuse_at.is_some_and(|k| opi >= k);
            let (prop, sig) = if refusing { ("C07", format!("entry_points_disagree_under_refusal:{sig}")) } else { ("C17", sig) };
            rep.viol(Viol { prop, sig, detail: format!("{desc} :: {d}"), config: cfg.clone(), hist, op: opi as u64, opdesc: desc });
            break;
        }
    }
    vh::monalloc::set_current(None);
    drop(a);
    drop(b);
    let h = mix(&[hash_str(&cfg), hash_str(&trace.join(";"))]);
    if hit != 0 {
        rep.nontrivial.insert(h);
    }
    rep.states.insert(mix(&[hash_str(&cfg), hit]));
    if rep.samples.len() < 2 {
        rep.samples.push(format!("[{cfg} hist {hist} seed {seed}] {}", trace.iter().take(12).cloned().collect::<Vec<_>>().join(" ; ")));
    }
}

fn main() {
    let a = Args::parse();
    if a.flag("noop") {
        return;
    }
    install_hooks();
    let seed = a.u64("seed", 1);
    let shard = a.u64("shard", 0);
    let nshards = a.u64("nshards", 1);
    let histories = a.u64("histories", 100);
    let ops = a.usize("ops", 120);
    let only = a.has("only-hist").then(|| a.u64("only-hist", 0));
    let mut rep = Report::new(a.flag("wal"));
    type R = fn(&mut Report, u64, u64, usize, bool);
    let refuse = a.flag("refuse");
    let runs: [R; 6] = [
        run_history::<MRc, BumpSettings<1, true>>,
        run_history::<MRc, BumpSettings<1, false>>,
        run_history::<MRc, BumpSettings<8, true, false>>,
        run_history::<MRc, BumpSettings<16, false, false>>,
        run_history::<vh::monalloc::MA32, BumpSettings<4, true, true, true, false, false>>,
        run_history::<vh::monalloc::M200, BumpSettings<2, false, true, true, true, true, 64>>,
    ];
    for i in 0..histories {
        let h = shard + i * nshards;
        if let Some(o) = only {
            if o != h {
                continue;
            }
        }
        runs[(h % 6) as usize](&mut rep, h, mix(&[seed, h, 0x17]), ops, refuse);
    }
    rep.emit(&format!(",\"bin\":\"lockstep\",\"seed\":{seed},\"shard\":{shard}"));
}
