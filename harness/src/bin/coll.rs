//! Driver binary for the collection monitors (C06 C07 C08 C09 C15 C16).
//!
//! coll --prop C08 --seed 7 --shard 0 --nshards 16 --histories 200 [--ops 60] [--wal] [--only-hist H]

use bump_scope::settings::BumpSettings;
use vh::arena::install_hooks;
use vh::coll::hist::{CollParams, FAMS, Fam, HistOut, run_history};
use vh::coll::split::run_split_history;
use vh::coll::strs::run_str_history;
use vh::monalloc::{FailPlan, MRc, MZ};
use vh::out::{Args, Report};
use vh::rng::mix;
use vh::tr::{Tr, TrZ};

type Runner = fn(&mut Report, &CollParams, Fam, u64, u64, FailPlan) -> HistOut;

type SU1 = BumpSettings<1, true>;
type SD1 = BumpSettings<1, false, false>;
type SU8 = BumpSettings<8, true, false>;
type SD16 = BumpSettings<16, false, true, true, true, true, 64>;

macro_rules! runners {
    ($($e:ty),*) => {
        &[ $(
            (<$e as vh::tr::Elem>::NAME, [
                run_history::<MRc, SU1, $e> as Runner,
                run_history::<MZ, SD1, $e> as Runner,
                run_history::<MRc, SU8, $e> as Runner,
                run_history::<MRc, SD16, $e> as Runner,
            ]),
        )* ]
    };
}

static RUNNERS: &[(&str, [Runner; 4])] = runners!(u8, u32, [u8; 3], u64, (), Tr, TrZ);

type SplitRunner = fn(&mut Report, &CollParams, u64, u64, FailPlan);
macro_rules! split_runners {
    ($($e:ty),*) => {
        &[ $(
            run_split_history::<MRc, SU1, $e> as SplitRunner,
            run_split_history::<MZ, SD1, $e> as SplitRunner,
            run_split_history::<MRc, SU8, $e> as SplitRunner,
            run_split_history::<MRc, SD16, $e> as SplitRunner,
        )* ]
    };
}
static SPLIT_RUNNERS: &[SplitRunner] = split_runners!(u8, u32, [u8; 3], Tr, TrZ);

fn main() {
    let a = Args::parse();
    if a.flag("noop") {
        return;
    }
    install_hooks();
    let prop = a.str("prop", "C08");
    let seed = a.u64("seed", 1);
    let shard = a.u64("shard", 0);
    let nshards = a.u64("nshards", 1);
    let histories = a.u64("histories", 100);
    let only = a.has("only-hist").then(|| a.u64("only-hist", 0));
    let mut rep = Report::new(a.flag("wal"));
    let p = CollParams { ops: a.usize("ops", 50), thick: !a.flag("thin"), fuel: None, small: a.flag("small") || cfg!(miri) };
    let mut enum_runs = 0u64;
    // element types per property: tracked ones for the drop ledger, everything for the model
    let elems: Vec<usize> = match prop.as_str() {
        "C06" => vec![5, 6, 5],
        "C07" => vec![1, 5, 0, 6],
        "C15" => vec![0, 1, 2, 3, 4, 5, 6],
        _ => vec![0, 1, 2, 3, 4, 5, 6],
    };
    let fams: Vec<Fam> = match prop.as_str() {
        "C15" => vec![Fam::Mut, Fam::Rev],
        _ => FAMS.to_vec(),
    };
    for i in 0..histories {
        let h = shard + i * nshards;
        if let Some(o) = only {
            if o != h {
                continue;
            }
        }
        let hseed = mix(&[seed, h, 0xC011]);
        if prop == "C09" || (prop == "C07" && h % 4 == 3) {
            type SR = fn(&mut Report, &CollParams, u64, u64, FailPlan) -> u64;
            let runs: [SR; 4] = [run_str_history::<MRc, SU1>, run_str_history::<MZ, SD1>, run_str_history::<MRc, SU8>, run_str_history::<MRc, SD16>];
            let run = runs[((h / 5) % 4) as usize];
            let n = run(&mut rep, &p, h, hseed, FailPlan::default());
            if prop == "C07" {
                for k in 0..n.saturating_sub(1).min(8) {
                    run(&mut rep, &p, h, hseed, FailPlan { fail_calls: vec![k], ..Default::default() });
                    enum_runs += 1;
                }
            }
            continue;
        }
        if prop == "C16" {
            SPLIT_RUNNERS[(h as usize) % SPLIT_RUNNERS.len()](&mut rep, &p, h, hseed, FailPlan::default());
            continue;
        }
        let e = elems[(h as usize) % elems.len()];
        let fam = fams[((h as usize) / elems.len()) % fams.len()];
        let run = RUNNERS[e].1[((h as usize) / (elems.len() * fams.len())) % 4];
        match prop.as_str() {
            "C06" => {
                // dry run counts the callbacks, then a panic is injected at every callback index
                let dry = run(&mut rep, &p, fam, h, hseed, FailPlan::default());
                let n = dry.callbacks.min(a.u64("max-enum", 400));
                let stride = (dry.callbacks / n.max(1)).max(1);
                let mut k = 0;
                while k < dry.callbacks {
                    let mut pp = p.clone();
                    pp.fuel = Some(k);
                    run(&mut rep, &pp, fam, h, hseed, FailPlan::default());
                    enum_runs += 1;
                    k += stride;
                }
            }
            "C07" => {
                let dry = run(&mut rep, &p, fam, h, hseed, FailPlan::default());
                let n = dry.base_calls.saturating_sub(1).min(a.u64("max-enum", 12));
                for k in 0..n {
                    run(&mut rep, &p, fam, h, hseed, FailPlan { fail_calls: vec![k], ..Default::default() });
                    enum_runs += 1;
                }
                run(&mut rep, &p, fam, h, hseed, FailPlan { fail_from: Some(mix(&[hseed, 1]) % (n + 1)), ..Default::default() });
                run(&mut rep, &p, fam, h, hseed, FailPlan { fail_prob: 200, ..Default::default() });
                enum_runs += 2;
            }
            _ => {
                run(&mut rep, &p, fam, h, hseed, FailPlan::default());
            }
        }
    }
    rep.add("fault_enum_runs", enum_runs);
    rep.emit(&format!(",\"bin\":\"coll\",\"prop\":\"{}\",\"seed\":{},\"shard\":{}", prop, seed, shard));
}
