//! Driver binary for the arena interpreter (C01 C02 C03 C05 C07 C10 C12 C13 C14 C18).
//!
//! arena --prop C02 --seed 7 --shard 0 --nshards 16 --histories 200 [--ops 150] [--thin]
//!       [--faults none|prob|enum] [--wal] [--only-hist H] [--configs substr]

use bump_scope::settings::BumpSettings;
use vh::arena::top::run_history;
use vh::arena::{HistoryResult, Params, install_hooks};
use vh::monalloc::{FailPlan, M24, M200, MA32, MA64, MRc, MZ};
use vh::out::{Args, Report};
use vh::rng::mix;

type Runner = fn(&mut Report, &Params, u64, u64, FailPlan) -> HistoryResult;

macro_rules! cfgs {
    ($( ($name:literal, $up:literal, $ga:literal, $de:literal, $sh:literal, $mc:literal, $a:ty) ),* $(,)?) => {
        &[ $(
            ($name, [
                run_history::<$a, BumpSettings<1, $up, $ga, true, $de, $sh, $mc>> as Runner,
                run_history::<$a, BumpSettings<2, $up, $ga, true, $de, $sh, $mc>> as Runner,
                run_history::<$a, BumpSettings<4, $up, $ga, true, $de, $sh, $mc>> as Runner,
                run_history::<$a, BumpSettings<8, $up, $ga, true, $de, $sh, $mc>> as Runner,
                run_history::<$a, BumpSettings<16, $up, $ga, true, $de, $sh, $mc>> as Runner,
            ]),
        )* ]
    };
}

#[cfg(not(vh_fewcfg))]
static CONFIGS: &[(&str, [Runner; 5])] = cfgs![
    ("U-G-D-S-512-zst", true, true, true, true, 512, MZ),
    ("D-G-D-S-512-zst", false, true, true, true, 512, MZ),
    ("U-g-D-S-512-rc8", true, false, true, true, 512, MRc),
    ("D-g-D-S-512-rc8", false, false, true, true, 512, MRc),
    ("U-G-d-S-512-s24", true, true, false, true, 512, M24),
    ("D-G-D-s-512-s24", false, true, true, false, 512, M24),
    ("U-g-D-s-4096-a32", true, false, true, false, 4096, MA32),
    ("D-G-d-S-1-a32", false, true, false, true, 1, MA32),
    ("U-G-D-S-1-a64", true, true, true, true, 1, MA64),
    ("D-g-d-s-4096-a64", false, false, false, false, 4096, MA64),
    ("U-g-d-s-1-s200", true, false, false, false, 1, M200),
    ("D-G-D-S-512-s200", false, true, true, true, 512, M200),
    ("U-G-d-s-512-zst", true, true, false, false, 512, MZ),
    ("D-g-D-S-1-zst", false, false, true, true, 1, MZ),
];

#[cfg(vh_fewcfg)]
static CONFIGS: &[(&str, [Runner; 5])] = cfgs![
    ("U-G-D-S-512-zst", true, true, true, true, 512, MZ),
    ("D-g-D-S-512-rc8", false, false, true, true, 512, MRc),
];

fn main() {
    let a = Args::parse();
    if a.flag("noop") {
        return;
    }
    install_hooks();
    let prop = a.str("prop", "C01");
    let seed = a.u64("seed", 1);
    let shard = a.u64("shard", 0);
    let nshards = a.u64("nshards", 1);
    let histories = a.u64("histories", 100);
    let mut p = Params::for_prop(&prop);
    p.ops = a.usize("ops", p.ops);
    if a.flag("thin") {
        p.thick = false;
        p.frame = false;
    }
    if a.flag("small") {
        p.small = true;
    }
    if a.flag("noframe") {
        p.frame = false;
    }
    p.max_depth = a.usize("depth", p.max_depth as usize) as u32;
    let faults = a.str("faults", if prop == "C07" { "enum" } else if prop == "C05" { "mixed" } else { "none" });
    let filter = a.str("configs", "");
    let only = a.has("only-hist").then(|| a.u64("only-hist", 0));
    let mut rep = Report::new(a.flag("wal"));
    let cfgs: Vec<&(&str, [Runner; 5])> = CONFIGS.iter().filter(|c| filter.is_empty() || c.0.contains(&filter)).collect();
    assert!(!cfgs.is_empty(), "no configuration matches");
    let mut enum_runs = 0u64;
    for i in 0..histories {
        let h = shard + i * nshards;
        if let Some(o) = only {
            if o != h {
                continue;
            }
        }
        let c = cfgs[(h as usize) % cfgs.len()];
        let ma = ((h as usize) / cfgs.len()) % 5;
        let run = c.1[ma];
        let hseed = mix(&[seed, h, 0xA7E4A]);
        let mut pp = p.clone();
        let mode = match faults.as_str() {
            "mixed" => ["none", "prob", "enum"][(h % 3) as usize],
            m => m,
        }
        .to_string();
        match mode.as_str() {
            "prob" => {
                pp.fault_prob = [40u32, 120, 300][(h % 3) as usize];
                run(&mut rep, &pp, h, hseed, FailPlan::default());
            }
            "enum" => {
                // un-faulted run counts the base calls; then each call index is refused individually
                let base = run(&mut rep, &pp, h, hseed, FailPlan::default());
                let n = base.base_calls.min(a.u64("max-enum", 14));
                for k in 0..n {
                    let f = FailPlan { fail_calls: vec![k], ..Default::default() };
                    run(&mut rep, &pp, h, hseed, f);
                    enum_runs += 1;
                }
                if base.base_calls > 1 {
                    // everything from call k on fails, and a random pair
                    let k = mix(&[hseed, 3]) % base.base_calls;
                    run(&mut rep, &pp, h, hseed, FailPlan { fail_from: Some(k), ..Default::default() });
                    let k2 = mix(&[hseed, 4]) % base.base_calls;
                    run(&mut rep, &pp, h, hseed, FailPlan { fail_calls: vec![k, k2], ..Default::default() });
                    enum_runs += 2;
                }
            }
            _ => {
                run(&mut rep, &pp, h, hseed, FailPlan::default());
            }
        }
    }
    rep.add("fault_enum_runs", enum_runs);
    rep.emit(&format!(",\"bin\":\"arena\",\"prop\":\"{}\",\"seed\":{},\"shard\":{},\"configs\":{}", prop, seed, shard, cfgs.len()));
}
