#![feature(alloc_error_hook)]
#![feature(slice_range)]
#![allow(clippy::all)]
#![allow(unexpected_cfgs)]
pub mod arena;
pub mod coll;
pub mod monalloc;
pub mod out;
pub mod rng;
pub mod shadow;
pub mod snap;
pub mod tr;
