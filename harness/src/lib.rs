#![feature(alloc_error_hook)]
#![allow(clippy::all)]
#![allow(unexpected_cfgs)]
pub mod arena;
pub mod monalloc;
pub mod out;
pub mod rng;
pub mod shadow;
pub mod snap;
pub mod tr;
