//! Small deterministic PRNG (xoshiro256**, seeded through SplitMix64).  No dependencies so that the
//! same generator runs natively, under sanitizers and inside Miri.

#[derive(Clone, Debug)]
pub struct Rng {
    s: [u64; 4],
}

pub fn splitmix(x: &mut u64) -> u64 {
    *x = x.wrapping_add(0x9E37_79B9_7F4A_7C15);
    let mut z = *x;
    z = (z ^ (z >> 30)).wrapping_mul(0xBF58_476D_1CE4_E5B9);
    z = (z ^ (z >> 27)).wrapping_mul(0x94D0_49BB_1331_11EB);
    z ^ (z >> 31)
}

/// Mixes several integers into one seed (order sensitive).
pub fn mix(parts: &[u64]) -> u64 {
    let mut h = 0x243F_6A88_85A3_08D3u64;
    for &p in parts {
        let mut x = h ^ p.wrapping_mul(0x9E37_79B9_7F4A_7C15);
        h = splitmix(&mut x);
    }
    h
}

pub fn hash_str(s: &str) -> u64 {
    let mut h = 0xcbf2_9ce4_8422_2325u64;
    for b in s.bytes() {
        h ^= b as u64;
        h = h.wrapping_mul(0x0000_0100_0000_01B3);
    }
    h
}

impl Rng {
    pub fn new(seed: u64) -> Self {
        let mut x = seed;
        let s = [splitmix(&mut x), splitmix(&mut x), splitmix(&mut x), splitmix(&mut x)];
        Rng { s }
    }

    #[inline]
    pub fn next(&mut self) -> u64 {
        let r = self.s[1].wrapping_mul(5).rotate_left(7).wrapping_mul(9);
        let t = self.s[1] << 17;
        self.s[2] ^= self.s[0];
        self.s[3] ^= self.s[1];
        self.s[1] ^= self.s[2];
        self.s[0] ^= self.s[3];
        self.s[2] ^= t;
        self.s[3] = self.s[3].rotate_left(45);
        r
    }

    /// Uniform in `0..n` (`n > 0`).
    #[inline]
    pub fn below(&mut self, n: usize) -> usize {
        debug_assert!(n > 0);
        ((self.next() as u128 * n as u128) >> 64) as usize
    }

    /// Uniform in `lo..=hi`.
    #[inline]
    pub fn range(&mut self, lo: usize, hi: usize) -> usize {
        lo + self.below(hi - lo + 1)
    }

    #[inline]
    pub fn chance(&mut self, num: usize, den: usize) -> bool {
        self.below(den) < num
    }

    #[inline]
    pub fn bool(&mut self) -> bool {
        self.next() & 1 == 1
    }

    pub fn pick<'a, T>(&mut self, xs: &'a [T]) -> &'a T {
        &xs[self.below(xs.len())]
    }

    /// Picks an index according to integer weights.
    pub fn weighted(&mut self, w: &[u32]) -> usize {
        let total: u64 = w.iter().map(|&x| x as u64).sum();
        debug_assert!(total > 0);
        let mut r = (self.next() as u128 * total as u128 >> 64) as u64;
        for (i, &x) in w.iter().enumerate() {
            if r < x as u64 {
                return i;
            }
            r -= x as u64;
        }
        w.len() - 1
    }

    pub fn fork(&mut self) -> Rng {
        Rng::new(self.next())
    }
}
